//! Compiles only if the types shared between threads are Send + Sync (C05).
use cel_interpreter::{Context, ExecutionError, Program, Value};
fn assert_send_sync<T: Send + Sync>() {}
fn main() {
    assert_send_sync::<Program>();
    assert_send_sync::<Context<'static>>();
    assert_send_sync::<Value>();
    assert_send_sync::<ExecutionError>();
    println!("send+sync ok");
}
