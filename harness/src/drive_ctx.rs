//! Context operation sequences (C11): define / open / close / addfn applied to a real
//! `Context`, with every lookup (as variable and as function) observed after every operation.
use crate::rng::Rng;
use cel_interpreter::{Context, ExecutionError, Program, Value};
use serde_json::{json, Value as J};
use std::io::Write;

pub const NAMES: &[&str] = &["a", "b", "c"];

fn observe(ctx: &Context, progs: &[(Program, Program)]) -> J {
    let mut vars = serde_json::Map::new();
    let mut fns = serde_json::Map::new();
    for (i, n) in NAMES.iter().enumerate() {
        let v = match ctx.get_variable(*n) {
            Ok(Value::Int(k)) => json!(k.to_string()),
            Ok(other) => json!(format!("{:?}", other)),
            Err(ExecutionError::UndeclaredReference(_)) => json!("U"),
            Err(e) => json!(format!("ERR {:?}", e)),
        };
        // the same through a program
        let pv = match progs[i].0.execute(ctx) {
            Ok(Value::Int(k)) => json!(k.to_string()),
            Ok(other) => json!(format!("{:?}", other)),
            Err(ExecutionError::UndeclaredReference(_)) => json!("U"),
            Err(e) => json!(format!("ERR {:?}", e)),
        };
        vars.insert(n.to_string(), if v == pv { v } else { json!(format!("MISMATCH {} {}", v, pv)) });
        let f = match progs[i].1.execute(ctx) {
            Ok(_) => json!(true),
            Err(ExecutionError::UndeclaredReference(_)) => json!(false),
            Err(e) => json!(format!("ERR {:?}", e)),
        };
        fns.insert(n.to_string(), f);
    }
    json!({"vars": vars, "fns": fns})
}

/// Applies ops[i..] to ctx; `open` recurses into a child scope, `close` returns.  Returns the index
/// after the matching close (or the end).  When the operations run out, scopes are closed one by one
/// and the lookups observed again (`unwind`).
fn apply(ops: &[J], mut i: usize, ctx: &mut Context, progs: &[(Program, Program)], obs: &mut Vec<J>, unwind: &mut Vec<J>, serde_define: bool) -> usize {
    while i < ops.len() {
        let o = &ops[i];
        match o["op"].as_str().unwrap() {
            "define" => {
                let n = o["n"].as_str().unwrap();
                let v = o["v"].as_i64().unwrap();
                if serde_define && v % 2 == 0 {
                    ctx.add_variable(n, v).unwrap(); // through serde
                } else {
                    ctx.add_variable_from_value(n, Value::Int(v));
                }
                obs.push(observe(ctx, progs));
                i += 1;
            }
            "addfn" => {
                let n = o["n"].as_str().unwrap();
                ctx.add_function(n, || -> i64 { 7 });
                obs.push(observe(ctx, progs));
                i += 1;
            }
            "open" => {
                let mut child = ctx.new_inner_scope();
                obs.push(observe(&child, progs));
                i = apply(ops, i + 1, &mut child, progs, obs, unwind, serde_define);
                // child dropped here
                if i > ops.len() {
                    // ran out of operations inside the child: record the unwinding
                    unwind.push(observe(ctx, progs));
                    return i;
                }
                obs.push(observe(ctx, progs));
            }
            "close" => {
                return i + 1;
            }
            _ => panic!("bad op"),
        }
    }
    ops.len() + 1
}

pub fn run_sequence(id: usize, ops: &[J]) -> J {
    let progs: Vec<(Program, Program)> = NAMES
        .iter()
        .map(|n| (Program::compile(n).unwrap(), Program::compile(&format!("{}()", n)).unwrap()))
        .collect();
    let mut obs = vec![];
    let mut unwind = vec![];
    let mut root = Context::default();
    let r = std::panic::catch_unwind(std::panic::AssertUnwindSafe(|| {
        apply(ops, 0, &mut root, &progs, &mut obs, &mut unwind, id % 2 == 0);
    }));
    json!({"id": id, "ops": ops, "obs": obs, "unwind": unwind, "panic": r.is_err()})
}

pub fn replay_vectors(inp: &str, out: &mut dyn Write) -> usize {
    let mut n = 0;
    for line in std::fs::read_to_string(inp).expect("read").lines() {
        if line.trim().is_empty() {
            continue;
        }
        let j: J = serde_json::from_str(line).expect("json");
        n += 1;
        writeln!(out, "{}", run_sequence(n, j["ops"].as_array().unwrap())).unwrap();
    }
    n
}

/// random longer sequences (length up to `max_len`)
pub fn random_sequences(seed: u64, count: usize, max_len: usize, out: &mut dyn Write) -> usize {
    let mut rng = Rng::new(seed);
    for id in 1..=count {
        let len = 1 + rng.below(max_len);
        let mut depth = 1;
        let mut ops = vec![];
        for _ in 0..len {
            let c = rng.below(10);
            if c < 5 {
                ops.push(json!({"op": "define", "n": NAMES[rng.below(3)], "v": rng.range(1, 2)}));
            } else if c < 7 && depth < 3 {
                ops.push(json!({"op": "open", "n": "", "v": 0}));
                depth += 1;
            } else if c < 9 && depth > 1 {
                ops.push(json!({"op": "close", "n": "", "v": 0}));
                depth -= 1;
            } else {
                ops.push(json!({"op": "addfn", "n": NAMES[rng.below(3)], "v": 0}));
            }
        }
        writeln!(out, "{}", run_sequence(id, &ops)).unwrap();
    }
    count
}
