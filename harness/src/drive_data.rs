//! C17 / C18: host data -> CEL values (serde), CEL values -> JSON.
use crate::enc;
use crate::gen;
use crate::rng::Rng;
use crate::run;
use cel_interpreter::Value;
use serde::ser::{SerializeMap, SerializeSeq, SerializeStruct, SerializeStructVariant, SerializeTuple, SerializeTupleStruct, SerializeTupleVariant};
use serde::{Serialize, Serializer};
use serde_json::{json, Value as J};
use std::io::Write;
use std::panic::{catch_unwind, AssertUnwindSafe};

pub const NAMES: &[&str] = &["A", "B", "Duration", "$__cel_private_Duration", "$__cel_private_Timestamp"];
pub const VARIANTS: &[&str] = &["V1", "V2", "k", "a"];
pub const FIELDS: &[&str] = &["a", "b", "secs", "nanos", "f0", "k1"];

/// Any value of the serde data model; `Serialize` calls exactly the serializer method the term names.
#[derive(Clone, Debug)]
pub enum Term {
    Bool(bool), I8(i8), I16(i16), I32(i32), I64(i64), U8(u8), U16(u16), U32(u32), U64(u64), F32(f32), F64(f64), Char(char), Str(String), Bytes(Vec<u8>),
    None, Some(Box<Term>), Unit, UnitStruct(usize), UnitVariant(usize), NewtypeStruct(usize, Box<Term>), NewtypeVariant(usize, Box<Term>),
    Seq(Vec<Term>), Tuple(Vec<Term>), TupleStruct(usize, Vec<Term>), TupleVariant(usize, Vec<Term>), Map(Vec<(Term, Term)>), MapBad(Vec<(Term, Term)>),
    Struct(usize, Vec<(usize, Term)>), StructVariant(usize, Vec<(usize, Term)>),
    /// a type that consults `Serializer::is_human_readable()` (std::net::IpAddr, uuid, ...): textual form, compact form
    Hr(Box<Term>, Box<Term>),
}

impl Serialize for Term {
    fn serialize<S: Serializer>(&self, s: S) -> Result<S::Ok, S::Error> {
        match self {
            Term::Hr(text, compact) => if s.is_human_readable() { text.serialize(s) } else { compact.serialize(s) },
            Term::Bool(v) => s.serialize_bool(*v),
            Term::I8(v) => s.serialize_i8(*v),
            Term::I16(v) => s.serialize_i16(*v),
            Term::I32(v) => s.serialize_i32(*v),
            Term::I64(v) => s.serialize_i64(*v),
            Term::U8(v) => s.serialize_u8(*v),
            Term::U16(v) => s.serialize_u16(*v),
            Term::U32(v) => s.serialize_u32(*v),
            Term::U64(v) => s.serialize_u64(*v),
            Term::F32(v) => s.serialize_f32(*v),
            Term::F64(v) => s.serialize_f64(*v),
            Term::Char(v) => s.serialize_char(*v),
            Term::Str(v) => s.serialize_str(v),
            Term::Bytes(v) => s.serialize_bytes(v),
            Term::None => s.serialize_none(),
            Term::Some(x) => s.serialize_some(x.as_ref()),
            Term::Unit => s.serialize_unit(),
            Term::UnitStruct(n) => s.serialize_unit_struct(NAMES[*n]),
            // the index is NOT a function of the name: two enums both called E may number their variants differently
            Term::UnitVariant(v) => s.serialize_unit_variant("E", ((*v * 7 + 3) % 4) as u32 % 2, VARIANTS[*v]),
            Term::NewtypeStruct(n, x) => s.serialize_newtype_struct(NAMES[*n], x.as_ref()),
            Term::NewtypeVariant(v, x) => s.serialize_newtype_variant("E", (*v % 2) as u32, VARIANTS[*v], x.as_ref()),
            Term::Seq(es) => {
                let mut q = s.serialize_seq(Some(es.len()))?;
                for e in es {
                    q.serialize_element(e)?;
                }
                q.end()
            }
            Term::Tuple(es) => {
                let mut q = s.serialize_tuple(es.len())?;
                for e in es {
                    q.serialize_element(e)?;
                }
                q.end()
            }
            Term::TupleStruct(n, es) => {
                let mut q = s.serialize_tuple_struct(NAMES[*n], es.len())?;
                for e in es {
                    q.serialize_field(e)?;
                }
                q.end()
            }
            Term::TupleVariant(v, es) => {
                let mut q = s.serialize_tuple_variant("E", (*v % 2) as u32, VARIANTS[*v], es.len())?;
                for e in es {
                    q.serialize_field(e)?;
                }
                q.end()
            }
            Term::Map(es) => {
                let mut q = s.serialize_map(Some(es.len()))?;
                for (k, v) in es {
                    q.serialize_key(k)?;
                    q.serialize_value(v)?;
                }
                q.end()
            }
            Term::MapBad(es) => {
                let mut q = s.serialize_map(Some(es.len()))?;
                for (k, v) in es {
                    q.serialize_value(v)?;
                    q.serialize_key(k)?;
                }
                q.end()
            }
            Term::Struct(n, fs) => {
                let mut q = s.serialize_struct(NAMES[*n], fs.len())?;
                for (f, v) in fs {
                    q.serialize_field(FIELDS[*f], v)?;
                }
                q.end()
            }
            Term::StructVariant(v, fs) => {
                let mut q = s.serialize_struct_variant("E", (*v % 2) as u32, VARIANTS[*v], fs.len())?;
                for (f, x) in fs {
                    q.serialize_field(FIELDS[*f], x)?;
                }
                q.end()
            }
        }
    }
}

pub fn term_json(t: &Term) -> J {
    let int = |s: &str, n: i128| json!({"s": s, "n": enc::big(n)});
    match t {
        Term::Hr(x, y) => json!({"s": "hr", "x": term_json(x), "y": term_json(y)}),
        Term::Bool(v) => json!({"s": "bool", "v": v}),
        Term::I8(v) => int("i8", *v as i128), Term::I16(v) => int("i16", *v as i128), Term::I32(v) => int("i32", *v as i128), Term::I64(v) => int("i64", *v as i128),
        Term::U8(v) => int("u8", *v as i128), Term::U16(v) => int("u16", *v as i128), Term::U32(v) => int("u32", *v as i128), Term::U64(v) => int("u64", *v as i128),
        Term::F32(v) => json!({"s": "f32", "b": enc::dbl_words(*v as f64)}),
        Term::F64(v) => json!({"s": "f64", "b": enc::dbl_words(*v)}),
        Term::Char(c) => json!({"s": "char", "cp": [*c as u32]}),
        Term::Str(v) => json!({"s": "str", "cp": enc::cps(v)}),
        Term::Bytes(b) => json!({"s": "bytes", "b": b}),
        Term::None => json!({"s": "none"}),
        Term::Some(x) => json!({"s": "some", "x": term_json(x)}),
        Term::Unit => json!({"s": "unit"}),
        Term::UnitStruct(n) => json!({"s": "unit_struct", "name": NAMES[*n]}),
        Term::UnitVariant(v) => json!({"s": "unit_variant", "variant": enc::cps(VARIANTS[*v])}),
        Term::NewtypeStruct(n, x) => json!({"s": "newtype_struct", "name": NAMES[*n], "x": term_json(x)}),
        Term::NewtypeVariant(v, x) => json!({"s": "newtype_variant", "variant": enc::cps(VARIANTS[*v]), "x": term_json(x)}),
        Term::Seq(es) => json!({"s": "seq", "e": es.iter().map(term_json).collect::<Vec<_>>()}),
        Term::Tuple(es) => json!({"s": "tuple", "e": es.iter().map(term_json).collect::<Vec<_>>()}),
        Term::TupleStruct(n, es) => json!({"s": "tuple_struct", "name": NAMES[*n], "e": es.iter().map(term_json).collect::<Vec<_>>()}),
        Term::TupleVariant(v, es) => json!({"s": "tuple_variant", "variant": enc::cps(VARIANTS[*v]), "e": es.iter().map(term_json).collect::<Vec<_>>()}),
        Term::Map(es) => json!({"s": "map", "e": es.iter().map(|(k, v)| json!([term_json(k), term_json(v)])).collect::<Vec<_>>()}),
        Term::MapBad(es) => json!({"s": "mapbad", "e": es.iter().map(|(k, v)| json!([term_json(k), term_json(v)])).collect::<Vec<_>>()}),
        Term::Struct(n, fs) => json!({"s": "struct", "name": NAMES[*n], "f": fs.iter().map(|(f, v)| json!([enc::cps(FIELDS[*f]), term_json(v)])).collect::<Vec<_>>()}),
        Term::StructVariant(v, fs) => json!({"s": "struct_variant", "variant": enc::cps(VARIANTS[*v]), "f": fs.iter().map(|(f, x)| json!([enc::cps(FIELDS[*f]), term_json(x)])).collect::<Vec<_>>()}),
    }
}

pub fn gen_term(rng: &mut Rng, depth: usize, key_pos: bool) -> Term {
    let leaf = depth == 0 || rng.chance(1, 3);
    let k = if leaf { rng.below(17) } else { 17 + rng.below(13) };
    let strs = ["", "a", "k1", "é", "🐱", "2024-02-29T12:00:00+01:00", "not a time", "1"];
    match k {
        0 => Term::Bool(rng.chance(1, 2)),
        1 => Term::I8(*rng.pick(&[i8::MIN, -1, 0, 1, i8::MAX])),
        2 => Term::I16(*rng.pick(&[i16::MIN, -1, 0, 1, i16::MAX])),
        3 => Term::I32(*rng.pick(&[i32::MIN, -1, 0, 7, i32::MAX])),
        4 => Term::I64(*rng.pick(&[i64::MIN, -1, 0, 1, 1_000_000_000, i64::MAX, 9_223_372_036])),
        5 => Term::U8(*rng.pick(&[0, 1, u8::MAX])),
        6 => Term::U16(*rng.pick(&[0, 1, u16::MAX])),
        7 => Term::U32(*rng.pick(&[0, 7, u32::MAX])),
        8 => Term::U64(*rng.pick(&[0, 1, u64::MAX, 1u64 << 63])),
        9 => Term::F32(*rng.pick(&[0.0f32, -0.0, 1.5, f32::MAX, f32::MIN_POSITIVE, f32::NAN, f32::INFINITY, 0.1])),
        10 => Term::F64(*rng.pick(&[0.0f64, -1.25, 1e300, f64::NAN, f64::NEG_INFINITY, 0.1, 5e-324])),
        11 => Term::Char(*rng.pick(&['a', 'é', '🐱', '\0', '1'])),
        12 => Term::Str(rng.pick(&strs).to_string()),
        13 => Term::Bytes(rng.pick(&[vec![], vec![0u8, 255], vec![97, 98, 99]]).clone()),
        14 => Term::None,
        15 => Term::Unit,
        16 => match rng.below(3) {
            0 => Term::UnitVariant(rng.below(VARIANTS.len())),
            1 => Term::UnitStruct(rng.below(NAMES.len())),
            // text when the format is human readable (as serde_json is), a compact encoding otherwise
            _ => Term::Hr(Box::new(Term::Str(rng.pick(&["127.0.0.1", "::1", "k1"]).to_string())),
                          Box::new(if rng.chance(1, 2) { Term::Tuple(vec![Term::U8(127), Term::U8(0), Term::U8(0), Term::U8(1)]) } else { Term::Bytes(vec![127, 0, 0, 1]) })),
        },
        17 => Term::Some(Box::new(gen_term(rng, depth - 1, key_pos))),
        18 => Term::NewtypeStruct(rng.below(NAMES.len()), Box::new(gen_term(rng, depth - 1, key_pos))),
        19 => Term::NewtypeVariant(rng.below(VARIANTS.len()), Box::new(gen_term(rng, depth - 1, false))),
        20 => Term::Seq((0..rng.below(4)).map(|_| gen_term(rng, depth - 1, false)).collect()),
        21 => Term::Tuple((0..rng.below(4)).map(|_| gen_term(rng, depth - 1, false)).collect()),
        22 => Term::TupleStruct(rng.below(NAMES.len()), (0..rng.below(3)).map(|_| gen_term(rng, depth - 1, false)).collect()),
        23 => Term::TupleVariant(rng.below(VARIANTS.len()), (0..rng.below(3)).map(|_| gen_term(rng, depth - 1, false)).collect()),
        24 | 25 => {
            let n = rng.below(4);
            Term::Map((0..n).map(|_| {
                // keys: mostly supported kinds, sometimes anything
                let key = if rng.chance(4, 5) { gen_term(rng, 0, true) } else { gen_term(rng, depth - 1, true) };
                (key, gen_term(rng, depth - 1, false))
            }).collect())
        }
        26 => Term::MapBad((0..1 + rng.below(2)).map(|_| (gen_term(rng, 0, true), gen_term(rng, 0, false))).collect()),
        27 | 28 => {
            // structs; sometimes exactly the shape of the Duration wrapper (with well-formed or hostile content)
            if rng.chance(1, 3) {
                let secs = *rng.pick(&[0i64, 1, -1, 9_223_372_036, -9_223_372_036, 9_223_372_037, i64::MAX, i64::MIN, 1i64 << 53]);
                let nanos = *rng.pick(&[0i64, 1, 999_999_999, -999_999_999, 1_000_000_000, i64::MAX, -1]);
                let inner = Term::Struct(2, vec![(2, Term::I64(secs)), (3, if rng.chance(1, 8) { Term::Str("x".into()) } else { Term::I64(nanos) })]);
                if rng.chance(3, 4) { Term::NewtypeStruct(3, Box::new(inner)) } else { inner }
            } else {
                let n = rng.below(4);
                Term::Struct(rng.below(NAMES.len()), (0..n).map(|_| (rng.below(FIELDS.len()), gen_term(rng, depth - 1, false))).collect())
            }
        }
        _ => {
            let n = rng.below(3);
            Term::StructVariant(rng.below(VARIANTS.len()), (0..n).map(|_| (rng.below(FIELDS.len()), gen_term(rng, depth - 1, false))).collect())
        }
    }
}

pub fn doc_json(d: &J) -> J {
    match d {
        J::Null => json!({"j": "null"}),
        J::Bool(b) => json!({"j": "bool", "v": b}),
        J::Number(n) => {
            if let Some(u) = n.as_u64() {
                json!({"j": "int", "n": enc::big(u as i128)})
            } else if let Some(i) = n.as_i64() {
                json!({"j": "int", "n": enc::big(i as i128)})
            } else {
                json!({"j": "dbl", "b": enc::dbl_words(n.as_f64().unwrap())})
            }
        }
        J::String(s) => json!({"j": "str", "cp": enc::cps(s)}),
        J::Array(a) => json!({"j": "arr", "e": a.iter().map(doc_json).collect::<Vec<_>>()}),
        J::Object(o) => json!({"j": "obj", "m": o.iter().map(|(k, v)| json!([enc::cps(k), doc_json(v)])).collect::<Vec<_>>()}),
    }
}

pub fn gen_doc(rng: &mut Rng, depth: usize) -> J {
    let k = if depth == 0 { rng.below(7) } else { rng.below(10) };
    match k {
        0 => J::Null,
        1 => J::Bool(rng.chance(1, 2)),
        2 => json!(*rng.pick(&[0i64, 1, -1, i64::MIN, i64::MAX, 42])),
        3 => json!(*rng.pick(&[u64::MAX, 1u64 << 63, 7])),
        4 => json!(*rng.pick(&[0.5f64, -2.25, 1e300, 1.0, 0.1, 5e-324])),
        5 | 6 => json!(*rng.pick(&["", "a", "é", "🐱", "1", "true"])),
        7 => J::Array((0..rng.below(4)).map(|_| gen_doc(rng, depth - 1)).collect()),
        _ => {
            let mut m = serde_json::Map::new();
            for _ in 0..rng.below(4) {
                m.insert(rng.pick(&["a", "b", "", "é", "1", "k1"]).to_string(), gen_doc(rng, depth - 1));
            }
            J::Object(m)
        }
    }
}

fn ser_outcome(r: std::thread::Result<Result<Value, cel_interpreter::SerializationError>>) -> (J, Option<Value>) {
    match r {
        Err(_) => (json!({"k": "panic", "msg": run::last_panic()}), None),
        Ok(Ok(v)) => (json!({"k": "v", "v": enc::value(&v)}), Some(v)),
        Ok(Err(_)) => (json!({"k": "e", "c": "ser"}), None),
    }
}

fn json_outcome(v: &Value) -> J {
    let r = catch_unwind(AssertUnwindSafe(|| match v.json() {
        Ok(j) => json!({"k": "j", "j": doc_json(&j)}),
        Err(cel_interpreter::ConvertToJsonError::Value(_)) => json!({"k": "e", "c": "json_value"}),
        Err(_) => json!({"k": "e", "c": "json_duration"}),
    }));
    r.unwrap_or_else(|_| json!({"k": "panic", "msg": run::last_panic()}))
}

pub fn drive_c17(seed: u64, thorough: bool, out: &mut dyn Write) -> usize {
    let mut rng = Rng::new(seed);
    let mut id = 0;
    let n = if thorough { 60000 } else { 6000 };
    for i in 0..n {
        let depth = 1 + rng.below(5);
        let t = gen_term(&mut rng, if i % 4 == 0 { 1 } else { depth }, false);
        let tj = term_json(&t);
        let (o, val) = ser_outcome(catch_unwind(AssertUnwindSafe(|| cel_interpreter::to_value(&t))));
        // the same through Context::add_variable
        let via_ctx = catch_unwind(AssertUnwindSafe(|| {
            let mut ctx = cel_interpreter::Context::default();
            match ctx.add_variable("v", &t) { Ok(()) => ctx.get_variable("v").ok(), Err(_) => None }
        }));
        let out2 = match via_ctx {
            Err(_) => json!({"k": "panic", "msg": run::last_panic()}),
            Ok(Some(b)) => json!({"k": "v", "v": enc::value(&b)}),
            Ok(None) => json!({"k": "e", "c": "ser"}),
        };
        id += 1;
        let mut rec = json!({"id": id, "op": "ser", "a": tj, "out": o, "out2": out2});
        // commuting square: converting then exporting equals serialising with serde_json directly
        if let Some(v) = &val {
            if let Ok(direct) = serde_json::to_value(&t) {
                rec["square"] = json!({"cel": json_outcome(v), "direct": doc_json(&direct)});
            }
        }
        writeln!(out, "{}", rec).unwrap();
    }
    // the public Duration / Timestamp wrappers (alone and inside derived-like containers)
    let durs: Vec<chrono::Duration> = crate::drive_ops::dur_boundary().into_iter().map(chrono::Duration::nanoseconds)
        .chain([chrono::Duration::MAX, chrono::Duration::MIN, chrono::Duration::milliseconds(i64::MAX / 2), chrono::Duration::seconds(-1) + chrono::Duration::nanoseconds(1)]).collect();
    for d in &durs {
        let expect = Value::Duration(*d);
        for wrap in 0..3 {
            let r = catch_unwind(AssertUnwindSafe(|| match wrap {
                0 => cel_interpreter::to_value(cel_interpreter::Duration(*d)),
                1 => cel_interpreter::to_value(vec![cel_interpreter::Duration(*d)]),
                _ => cel_interpreter::to_value(std::collections::BTreeMap::from([("d", cel_interpreter::Duration(*d))])),
            }));
            let (o, _) = ser_outcome(r);
            id += 1;
            writeln!(out, "{}", json!({"id": id, "op": "wrap", "wrap": wrap, "a": enc::value(&expect), "out": o})).unwrap();
        }
    }
    let mut tss: Vec<chrono::DateTime<chrono::FixedOffset>> = ["0001-01-01T00:00:00Z", "9999-12-31T23:59:59.999999999Z", "1970-01-01T00:00:00+14:00", "2024-02-29T12:30:45.123456789-05:30",
                "1969-12-31T23:59:59.5Z", "0000-06-15T12:00:00-08:00", "0001-01-01T00:00:00+14:00", "9999-12-31T23:59:59-12:00"]
        .iter().map(|t| chrono::DateTime::parse_from_rfc3339(t).unwrap()).collect();
    // years before 0000 and after 9999 (written in chrono's extended form), viewed at non-zero offsets
    for (secs, off) in [(-62_198_755_200i64 - 86_400 * 400, -8 * 3600), (-62_198_755_200i64 - 86_400 * 366 * 20, 5 * 3600 + 1800), (253_402_300_800i64 + 86_400 * 30, 3600), (253_402_300_800i64 + 86_400 * 366 * 1000, -43200),
                        (253_402_300_800i64 + 12_345, 14 * 3600), (-62_198_755_200i64 - 1, -1)] {
        if let (Some(utc), Some(fo)) = (chrono::DateTime::<chrono::Utc>::from_timestamp(secs, 500_000_000), chrono::FixedOffset::east_opt(off)) {
            tss.push(utc.with_timezone(&fo));
        }
    }
    for ts in tss {
        let expect = Value::Timestamp(ts);
        for wrap in 0..2 {
            let r = catch_unwind(AssertUnwindSafe(|| match wrap {
                0 => cel_interpreter::to_value(cel_interpreter::Timestamp(ts)),
                _ => cel_interpreter::to_value(vec![cel_interpreter::Timestamp(ts)]),
            }));
            let (o, _) = ser_outcome(r);
            id += 1;
            writeln!(out, "{}", json!({"id": id, "op": "wrap", "wrap": wrap, "a": enc::value(&expect), "out": o})).unwrap();
        }
    }
    // serde_json documents
    for _ in 0..(if thorough { 20000 } else { 2500 }) {
        let dd = 1 + rng.below(4);
        let d = gen_doc(&mut rng, dd);
        let (o, val) = ser_outcome(catch_unwind(AssertUnwindSafe(|| cel_interpreter::to_value(&d))));
        id += 1;
        let back = match &val { Some(v) => json_outcome(v), None => json!({"k": "none"}) };
        writeln!(out, "{}", json!({"id": id, "op": "serjson", "a": doc_json(&d), "out": o, "back": back})).unwrap();
    }
    id
}

/// Values built from JSON-native kinds only (the round-trip clause of C18 speaks about these): string keys
/// include texts that look like numbers, booleans and null.
fn gen_json_native(rng: &mut Rng, depth: usize) -> Value {
    use cel_interpreter::objects::{Key, Map};
    use std::collections::HashMap;
    use std::sync::Arc;
    let k = if depth == 0 { rng.below(6) } else { rng.below(9) };
    match k {
        0 => Value::Int(*rng.pick(&[0i64, 1, -1, 7, i64::MAX, i64::MIN, 9007199254740993])),
        1 => Value::UInt(*rng.pick(&[0u64, 1, u64::MAX, 1u64 << 63])),
        2 => Value::Float(*rng.pick(&[0.0f64, -0.0, 1.5, -2.25, 1e300, 5e-324, 1e21, 0.1])),
        3 => Value::String(Arc::new(rng.pick(&["", "a", "é", "1", "-7", "true", "null", "2024-02-29T12:00:00Z", "1.5"]).to_string())),
        4 => Value::Bool(rng.chance(1, 2)),
        5 => Value::Null,
        6 => Value::List(Arc::new((0..rng.below(4)).map(|_| gen_json_native(rng, depth - 1)).collect())),
        _ => {
            let mut m = HashMap::new();
            for _ in 0..rng.below(4) {
                let key = *rng.pick(&["a", "b", "1", "-7", "2024", "007", "1e3", "true", "null", "", "é", "18446744073709551615", "1.0"]);
                m.insert(Key::String(Arc::new(key.to_string())), gen_json_native(rng, depth - 1));
            }
            Value::Map(Map { map: Arc::new(m) })
        }
    }
}

pub fn drive_c18(seed: u64, thorough: bool, out: &mut dyn Write) -> usize {
    let mut rng = Rng::new(seed);
    let mut id = 0;
    let n = if thorough { 60000 } else { 6000 };
    let mut specials: Vec<Value> = vec![];
    for ns in [i64::MAX, i64::MIN, 0, -1] {
        specials.push(Value::Duration(chrono::Duration::nanoseconds(ns)));
    }
    specials.push(Value::Duration(chrono::Duration::nanoseconds(i64::MAX) + chrono::Duration::nanoseconds(1)));
    specials.push(Value::Duration(chrono::Duration::nanoseconds(i64::MIN) - chrono::Duration::nanoseconds(1)));
    specials.push(Value::Duration(chrono::Duration::milliseconds(9223372036855) - chrono::Duration::nanoseconds(1)));
    specials.push(Value::Duration(chrono::Duration::MAX));
    specials.push(Value::Duration(chrono::Duration::MIN));
    for i in 0..n {
        let dd = 1 + rng.below(5);
        let v = if i < specials.len() { specials[i].clone() } else if i % 3 == 1 { gen_json_native(&mut rng, dd.min(4)) } else { gen::gen_any_value(&mut rng, dd, true) };
        let o = json_outcome(&v);
        // import the exported document back
        let back = match catch_unwind(AssertUnwindSafe(|| v.json().ok())) {
            Ok(Some(j)) => match catch_unwind(AssertUnwindSafe(|| cel_interpreter::to_value(&j))) {
                Ok(Ok(b)) => json!({"k": "v", "v": enc::value(&b)}),
                Ok(Err(_)) => json!({"k": "e", "c": "ser"}),
                Err(_) => json!({"k": "panic"}),
            },
            Ok(None) => json!({"k": "none"}),
            Err(_) => json!({"k": "panic"}),
        };
        id += 1;
        writeln!(out, "{}", json!({"id": id, "op": "json", "a": enc::value(&v), "out": o, "back": back})).unwrap();
    }
    id
}
