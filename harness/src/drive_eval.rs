//! Implementation -> specification: generate programs, run them, record cases for the
//! evaluator trace specification (family "eval").
use crate::gen::{self, Gen, Knobs, T};
use crate::rng::Rng;
use crate::run;
use cel_interpreter::Value;
use serde_json::{json, Value as J};
use std::io::Write;

pub struct Stats {
    pub cases: usize,
    pub compile_fail: usize,
    pub panics: usize,
}

pub fn knobs_for(profile: &str) -> Knobs {
    let mut k = Knobs::default();
    match profile {
        "c06" => {
            k.logic_bias = true;
            k.err_pct = 25;
            k.wrap_pct = 15;
            k.max_depth = 4;
            k.doubles = false;
        }
        "c07" => {
            k.wrap_pct = 70;
            k.err_pct = 3;
            k.max_depth = 5;
        }
        "c10" => {
            k.wrap_pct = 20;
            k.err_pct = 8;
            k.max_depth = 3;
        }
        "c11" => {
            k.clash_names = true;
            k.wrap_pct = 10;
            k.max_depth = 4;
        }
        _ => {}
    }
    k
}

/// C02: untyped programs over a context holding values of every kind.
pub fn one_case_untyped(id: usize, rng: &mut Rng, depth: usize) -> Option<J> {
    use crate::gen_untyped::U;
    let names = ["vb1", "vi1", "vu1", "vd1", "vs1", "vy1", "vl1", "vm1", "vdur", "vts", "vfn", "vn", "va1", "va2"];
    let mut vars: Vec<(String, Value)> = vec![];
    for n in names.iter() {
        let v = match *n {
            "vb1" => Value::Bool(rng.chance(1, 2)),
            "vi1" => gen::gen_value(rng, &T::Int, 0),
            "vu1" => gen::gen_value(rng, &T::Uint, 0),
            "vs1" => gen::gen_value(rng, &T::Str, 0),
            "vy1" => gen::gen_value(rng, &T::Bytes, 0),
            "vn" => Value::Null,
            "vfn" => Value::Function(std::sync::Arc::new("size".to_string()), None),
            _ => loop {
                let v = gen::gen_any_value(rng, 2, true);
                let ok = match (*n, &v) {
                    ("vd1", Value::Float(_)) | ("vl1", Value::List(_)) | ("vm1", Value::Map(_)) | ("vdur", Value::Duration(_)) | ("vts", Value::Timestamp(_)) => true,
                    ("va1", _) | ("va2", _) => true,
                    _ => false,
                };
                if ok {
                    break v;
                }
            },
        };
        vars.push((n.to_string(), v));
    }
    let mut pool: Vec<String> = names.iter().map(|s| s.to_string()).collect();
    pool.push("undeclared_v".to_string());
    let fns: Vec<String> = crate::zoo::ZOO_NAMES.iter().map(|s| s.to_string()).chain(std::iter::once("nofn".to_string())).collect();
    let mut u = U { rng, vars: pool, fns, macro_vars: vec!["x".into(), "y".into(), "vi1".into()], used: vec![], tag: 0, wrap_pct: 8, structs: true };
    let d = 1 + u.rng.below(depth.max(1));
    let src = u.expr(d);
    case_for(id, &src, &vars)
}

pub fn one_case(id: usize, rng: &mut Rng, profile: &str, depth: usize) -> Option<J> {
    if profile == "c02" {
        return one_case_untyped(id, rng, if depth > 0 { depth } else { 6 });
    }
    let ctx = gen::gen_context(rng, 4);
    let knobs = knobs_for(profile);
    let ty = match (profile, rng.below(8)) {
        ("c06", _) => T::Bool,
        ("c10", 0..=3) => T::Bool,
        ("c10", _) => T::List(Box::new(T::Int)),
        (_, 0 | 1) => T::Bool,
        (_, 2 | 3) => T::Int,
        (_, 4) => T::Str,
        (_, 5) => T::List(Box::new(T::Int)),
        (_, 6) => T::Uint,
        _ => T::Dbl,
    };
    let d = if depth > 0 { depth } else { knobs.max_depth };
    let g = {
        let mut gen = Gen::new(rng, knobs, &ctx);
        let dd = 1 + gen.rng.below(d);
        gen.expr(&ty, dd)
    };
    let src = g.render();
    let vars: Vec<(String, Value)> = ctx.vars.iter().map(|(n, _, v)| (n.clone(), v.clone())).collect();
    case_for(id, &src, &vars)
}

/// Run one source text against a context; None when the text does not compile.
pub fn case_for(id: usize, src: &str, vars: &[(String, Value)]) -> Option<J> {
    match run::compile(src) {
        run::Compiled::Ok(prog, ast) => {
            let (out, log) = run::execute(&prog, vars, true);
            Some(json!({"ev": "case", "id": id, "src": src, "ast": ast, "vars": run::vars_json(vars), "log": log, "out": out}))
        }
        run::Compiled::Err(_) => None,
        run::Compiled::Panic(_) => None,
    }
}

pub fn drive(profile: &str, seed: u64, n: usize, depth: usize, out: &mut dyn Write) -> Stats {
    let mut rng = Rng::new(seed);
    let mut st = Stats { cases: 0, compile_fail: 0, panics: 0 };
    let mut id = 0;
    while st.cases < n {
        id += 1;
        let mut r = rng.fork();
        match one_case(id, &mut r, profile, depth) {
            Some(c) => {
                if c["out"]["k"] == "panic" {
                    st.panics += 1;
                }
                writeln!(out, "{}", c).unwrap();
                st.cases += 1;
            }
            None => {
                st.compile_fail += 1;
                if st.compile_fail > n + 100 {
                    break;
                }
            }
        }
    }
    st
}

/// The context of spec/CelEvalMC.tla (Env0).
pub fn env0(vl: &[i64]) -> Vec<(String, Value)> {
    use cel_interpreter::objects::{Key, Map};
    use std::collections::HashMap;
    use std::sync::Arc;
    let mut m = HashMap::new();
    m.insert(Key::String(Arc::new("a".to_string())), Value::Int(1));
    m.insert(Key::String(Arc::new("b".to_string())), Value::Int(0));
    vec![
        ("vi".to_string(), Value::Int(7)),
        ("x".to_string(), Value::Int(40)),
        ("vl".to_string(), Value::List(Arc::new(vl.iter().map(|i| Value::Int(*i)).collect()))),
        ("vm".to_string(), Value::Map(Map { map: Arc::new(m) })),
    ]
}
