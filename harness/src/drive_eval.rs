//! Implementation -> specification: generate programs, run them, record cases for the
//! evaluator trace specification (family "eval").
use crate::gen::{self, Gen, Knobs, T};
use crate::rng::Rng;
use crate::run;
use cel_interpreter::Value;
use serde_json::{json, Value as J};
use std::io::Write;

pub struct Stats {
    pub cases: usize,
    pub compile_fail: usize,
    pub panics: usize,
}

pub fn knobs_for(profile: &str) -> Knobs {
    let mut k = Knobs::default();
    match profile {
        "c06" => {
            k.logic_bias = true;
            k.err_pct = 25;
            k.wrap_pct = 15;
            k.max_depth = 4;
            k.doubles = false;
        }
        "c07" => {
            k.wrap_pct = 70;
            k.err_pct = 3;
            k.max_depth = 5;
        }
        "c10" => {
            k.wrap_pct = 20;
            k.err_pct = 8;
            k.max_depth = 3;
            k.chain_pct = 25;
        }
        "c14" => {
            k.coll_bias = true;
            k.wrap_pct = 5;
            k.err_pct = 3;
            k.max_depth = 3;
            k.max_list = 5;
        }
        "c11" => {
            k.clash_names = true;
            k.wrap_pct = 10;
            k.max_depth = 4;
        }
        _ => {}
    }
    k
}

/// C02: untyped programs over a context holding values of every kind.
pub fn one_case_untyped(id: usize, rng: &mut Rng, depth: usize) -> Option<J> {
    use crate::gen_untyped::U;
    let names = ["vb1", "vi1", "vu1", "vd1", "vs1", "vy1", "vl1", "vm1", "vdur", "vts", "vfn", "vn", "va1", "va2"];
    let mut vars: Vec<(String, Value)> = vec![];
    for n in names.iter() {
        let v = match *n {
            "vb1" => Value::Bool(rng.chance(1, 2)),
            "vi1" => gen::gen_value(rng, &T::Int, 0),
            "vu1" => gen::gen_value(rng, &T::Uint, 0),
            "vs1" => gen::gen_value(rng, &T::Str, 0),
            "vy1" => gen::gen_value(rng, &T::Bytes, 0),
            "vn" => Value::Null,
            "vfn" => Value::Function(std::sync::Arc::new("size".to_string()), None),
            _ => loop {
                let v = gen::gen_any_value(rng, 2, true);
                let ok = match (*n, &v) {
                    ("vd1", Value::Float(_)) | ("vl1", Value::List(_)) | ("vm1", Value::Map(_)) | ("vdur", Value::Duration(_)) | ("vts", Value::Timestamp(_)) => true,
                    ("va1", _) | ("va2", _) => true,
                    _ => false,
                };
                if ok {
                    break v;
                }
            },
        };
        vars.push((n.to_string(), v));
    }
    let mut pool: Vec<String> = names.iter().map(|s| s.to_string()).collect();
    pool.push("undeclared_v".to_string());
    let fns: Vec<String> = crate::zoo::ZOO_NAMES.iter().map(|s| s.to_string()).chain(std::iter::once("nofn".to_string())).collect();
    let mut u = U { rng, vars: pool, fns, macro_vars: vec!["x".into(), "y".into(), "vi1".into()], used: vec![], tag: 0, wrap_pct: 8, structs: true };
    let d = 1 + u.rng.below(depth.max(1));
    let src = u.expr(d);
    case_for(id, &src, &vars)
}

pub fn one_case(id: usize, rng: &mut Rng, profile: &str, depth: usize) -> Option<J> {
    if profile == "c02" {
        return one_case_untyped(id, rng, if depth > 0 { depth } else { 6 });
    }
    let ctx = gen::gen_context(rng, 4);
    let knobs = knobs_for(profile);
    let ty = match (profile, rng.below(8)) {
        ("c06", _) => T::Bool,
        ("c10", 0..=3) => T::Bool,
        ("c10", _) => T::List(Box::new(T::Int)),
        ("c14", 0 | 1) => T::List(Box::new(T::Int)),
        ("c14", 2) => T::List(Box::new(T::Str)),
        ("c14", 3) => T::Str,
        ("c14", 4) => T::Int,
        ("c14", 5) => T::Map(Box::new(T::Str), Box::new(T::Int)),
        ("c14", _) => T::Bool,
        (_, 0 | 1) => T::Bool,
        (_, 2 | 3) => T::Int,
        (_, 4) => T::Str,
        (_, 5) => T::List(Box::new(T::Int)),
        (_, 6) => T::Uint,
        _ => T::Dbl,
    };
    let d = if depth > 0 { depth } else { knobs.max_depth };
    let g = {
        let mut gen = Gen::new(rng, knobs, &ctx);
        let dd = 1 + gen.rng.below(d);
        gen.expr(&ty, dd)
    };
    let src = g.render();
    let vars: Vec<(String, Value)> = ctx.vars.iter().map(|(n, _, v)| (n.clone(), v.clone())).collect();
    case_for(id, &src, &vars)
}

/// Run one source text against a context; None when the text does not compile.
pub fn case_for(id: usize, src: &str, vars: &[(String, Value)]) -> Option<J> {
    match run::compile(src) {
        run::Compiled::Ok(prog, ast) => {
            let (out, log) = run::execute(&prog, vars, true);
            Some(json!({"ev": "case", "id": id, "src": src, "text": crate::enc::cps(src), "ast": ast, "vars": run::vars_json(vars), "log": log, "out": out}))
        }
        run::Compiled::Err(_) => None,
        // a generated program on which the compiler panics or does not return: reported, not dropped
        run::Compiled::Panic(m) => {
            if run::too_many_timeouts() && m.contains("did not return") && id % 50 != 0 {
                return None;
            }
            Some(json!({"ev": "case", "id": id, "src": src, "text": crate::enc::cps(src), "ast": {"k": "unspecified"}, "vars": run::vars_json(vars), "log": [], "out": {"k": "panic", "msg": m}}))
        }
    }
}

/// Directed cases of a profile: small complete tables of the situations random generation reaches too rarely
/// (aliased operands holding NaN, chained macros sharing a variable, shared / temporary operands of +,
/// map keys that are also function names).
pub fn directed(profile: &str) -> Vec<(String, Vec<(String, Value)>)> {
    use cel_interpreter::objects::{Key, Map};
    use std::collections::HashMap;
    use std::sync::Arc;
    let s = |x: &str| Value::String(Arc::new(x.to_string()));
    let list = |v: Vec<Value>| Value::List(Arc::new(v));
    let map1 = |k: &str, v: Value| {
        let mut m = HashMap::new();
        m.insert(Key::String(Arc::new(k.to_string())), v);
        Value::Map(Map { map: Arc::new(m) })
    };
    let mut out = vec![];
    match profile {
        "c03" | "c09x" => {
            // equality / membership on aliases of one value (v, w share storage; u is rebuilt)
            let mk: Vec<Box<dyn Fn() -> Value>> = vec![
                Box::new(|| Value::Float(f64::NAN)),
                Box::new(move || list(vec![Value::Float(f64::NAN)])),
                Box::new(move || list(vec![Value::Int(1), Value::Float(f64::NAN)])),
                Box::new(move || list(vec![list(vec![Value::Float(f64::NAN)])])),
                Box::new(move || map1("a", Value::Float(f64::NAN))),
                Box::new(move || list(vec![map1("a", list(vec![Value::Float(f64::NAN)]))])),
                Box::new(move || list(vec![Value::Float(1.5), Value::Int(2)])),
                Box::new(move || map1("a", list(vec![Value::Int(1)]))),
                Box::new(move || list(vec![])),
                Box::new(move || s("é")),
            ];
            let srcs = ["v == v", "v != v", "v == w", "w != v", "v == u", "v in [v]", "v in [w]", "[v].contains(v)", "[v] == [v]", "[v] == [w]", "[v, v] != [v, w]",
                        "[v].all(e, e == e)", "[v].exists(e, e == v)", "[v, w].map(e, e == v)", "{'k': v} == {'k': v}", "{'k': v} == {'k': w}", "[[v]].all(e, e == e)",
                        "[v].filter(e, e in [e])", "v == v ? 1 : 2", "!(v == v) || v != v"];
            for m in mk.iter() {
                let v = m();
                let vars = vec![("v".to_string(), v.clone()), ("w".to_string(), v.clone()), ("u".to_string(), m())];
                for src in srcs.iter() {
                    out.push((src.to_string(), vars.clone()));
                }
            }
            // substring search, exhaustively over a small scope: every pair of strings over {a, b} up to length 3 (plus
            // a few non-ASCII ones) under contains / startsWith / endsWith, and the same texts as bytes under contains
            let mut words: Vec<String> = vec![String::new()];
            let mut frontier = vec![String::new()];
            for _ in 0..3 {
                let mut next = vec![];
                for w in &frontier {
                    for c in ["a", "b"] {
                        next.push(format!("{}{}", w, c));
                    }
                }
                words.extend(next.iter().cloned());
                frontier = next;
            }
            words.extend(["é", "aé", "éa", "éé"].iter().map(|x| x.to_string()));
            for a in &words {
                for b in &words {
                    let vars = vec![("a".to_string(), s(a)), ("b".to_string(), s(b)),
                                    ("ya".to_string(), Value::Bytes(Arc::new(a.as_bytes().to_vec()))), ("yb".to_string(), Value::Bytes(Arc::new(b.as_bytes().to_vec())))];
                    for src in ["a.contains(b)", "a.startsWith(b)", "a.endsWith(b)", "ya.contains(yb)"] {
                        out.push((src.to_string(), vars.clone()));
                    }
                }
            }
            // the same for byte strings that are not UTF-8 or cut a multi-byte character
            let bys: Vec<Vec<u8>> = vec![vec![], vec![0xff], vec![0xfe], vec![0xff, 0xfe], vec![0xfe, 0xff], vec![0xe2, 0x82, 0xac], vec![0x82], vec![0xe2, 0x82], vec![0x82, 0xac], vec![0xac, 0xe2],
                                         "héllo".as_bytes().to_vec(), vec![0xa9, b'l'], vec![b'h', 0xc3], vec![0xc3, 0xa9], vec![b'a', 0xff, b'b'], vec![0xff, b'b'], vec![0, 0], vec![0]];
            for a in &bys {
                for b in &bys {
                    let vars = vec![("ya".to_string(), Value::Bytes(Arc::new(a.clone()))), ("yb".to_string(), Value::Bytes(Arc::new(b.clone())))];
                    out.push(("ya.contains(yb)".to_string(), vars.clone()));
                    out.push(("contains(ya, yb)".to_string(), vars));
                }
            }
            // ordering and equality across int / uint / double around every small integer: the relations, min and max
            let ints: Vec<Value> = (-3..=3).map(Value::Int).chain((0..=3).map(Value::UInt)).collect();
            let dbls: Vec<f64> = vec![-3.25, -3.0, -2.5, -1.5, -1.0, -0.5, -0.25, -0.0, 0.0, 0.25, 0.5, 1.0, 1.5, 2.5, 3.0, 3.25];
            for i in &ints {
                for d in &dbls {
                    let vars = vec![("i".to_string(), i.clone()), ("d".to_string(), Value::Float(*d))];
                    for src in ["i < d", "i <= d", "i > d", "i >= d", "i == d", "i != d", "d < i", "d <= i", "d > i", "d >= i", "d == i", "max(i, d)", "min(i, d)", "max([d, i])", "min([d, i])",
                                "i in [d]", "d in [i]", "[i].contains(d)", "[d, i].filter(e, e >= d)", "[i, d].filter(e, e < i)"] {
                        out.push((src.to_string(), vars.clone()));
                    }
                }
            }
            // map literals: key_1, value_1, key_2, value_2 ... in order, the first error aborts
            for src in ["{1: 1 / 0, 9223372036854775807 + 1: 2}", "{t(1, 1): t(2, 2), t(3, 3): t(4, 4)}", "{1: nope, 5 % 0: 2}", "{1 / 0: nope}", "{t(1, 'a'): 1 / 0, fail(2): 3}",
                        "{[1]: 1 / 0}", "{1: 2, [1]: 1 / 0}", "{1: t(1, 2), 1.5: nope}", "[t(1, 1), 1 / 0, nope]", "[nope, 1 / 0]", "{1: 2, 1: 1 / 0}"] {
                out.push((src.to_string(), vec![]));
            }
        }
        "c10" => {
            // nested macros whose inner bodies mention the enclosing macros' variables (2 and 3 deep), with and without
            // context variables of the same names
            for ctxvars in [vec![], vec![("x".to_string(), Value::Int(100))], vec![("y".to_string(), Value::Int(200)), ("z".to_string(), Value::Int(300))],
                            vec![("x".to_string(), Value::Int(100)), ("y".to_string(), Value::Int(200)), ("z".to_string(), Value::Int(300))]] {
                for (m1, m2) in [("map", "map"), ("map", "filter"), ("filter", "exists"), ("all", "exists"), ("exists", "all"), ("map", "exists_one"), ("exists_one", "map")] {
                    let inner_bool = |m: &str| m != "map";
                    for inner in ["x + y", "y + x", "x", "y < x", "x + y > 11", "t(1, x) + t(2, y)"] {
                        let inner_is_bool = inner.contains('<') || inner.contains('>');
                        if inner_bool(m2) != inner_is_bool {
                            continue;
                        }
                        let body1 = format!("[10, 20].{}(y, {})", m2, inner);
                        let body1 = if inner_bool(m1) { if m2 == "map" || m2 == "filter" { format!("size({}) > 0", body1) } else { body1 } } else { body1 };
                        out.push((format!("[1, 2].{}(x, {})", m1, body1), ctxvars.clone()));
                    }
                }
                for src in ["[1, 2].map(x, [10, 20].map(y, [100].map(z, x + y + z)))", "[1, 2].map(x, [10, 20].map(y, [100].map(z, z + x)))", "[1, 2].map(x, [10].map(y, y).map(y, x + y))",
                            "[1, 2].map(x, [x, x + 1].map(y, y * x))", "[[1, 2], [3]].map(x, x.map(y, size(x) + y))", "[1, 2].map(x, [10, 20].filter(y, y > x * 10).map(z, z + x))",
                            "[1, 2].all(x, [1, 2].exists(y, y == x))", "[1, 2].exists(x, [3].all(y, y > x) && [0].all(z, z < x))", "[1, 2].map(x, [3].map(x, x)[0] + x)",
                            "[1, 2].map(x, {x: [x].map(y, y + x)})", "[2].map(x, [3].map(y, [4].map(x, x + y)))", "[1, 2].map(x, x) + [3].map(y, y)", "[1].map(x, y)", "[1].map(x, [2].map(y, z))"] {
                    out.push((src.to_string(), ctxvars.clone()));
                }
            }
            // host-supplied maps whose keys include an int and a uint of the same magnitude: two entries, both visited
            {
                use cel_interpreter::objects::{Key, Map};
                let mut hm = std::collections::HashMap::new();
                hm.insert(Key::Int(1), Value::Int(10));
                hm.insert(Key::Uint(1), Value::Int(20));
                hm.insert(Key::String(std::sync::Arc::new("a".to_string())), Value::Int(30));
                let mut hm2 = std::collections::HashMap::new();
                hm2.insert(Key::Int(0), Value::Int(1));
                hm2.insert(Key::Uint(0), Value::Int(2));
                for m in [hm, hm2] {
                    let vars = vec![("m".to_string(), Value::Map(Map { map: std::sync::Arc::new(m) }))];
                    for src in ["size(m.map(k, k))", "m.all(k, t(1, 1) == 1)", "m.exists_one(k, k == 1)", "m.exists_one(k, k == 0)", "size(m.filter(k, true))", "m.map(k, 1)", "m.exists(k, k == 'a')",
                                "size(m)", "m.map(k, m[k] > 0)", "[m].map(e, size(e.map(k, k)))"] {
                        out.push((src.to_string(), vars.clone()));
                    }
                }
            }
            // chains of macros sharing the variable name: the inner macro completes before the outer one starts
            let preds = ["t(1, x) > 0", "10 / x > 0", "t(1, x) != 2", "x > 0 && t(1, x) > 0", "tb(1)", "x != nope"];
            let bodies = ["t(2, x)", "x + nope", "10 / x", "t(2, x) * 2", "x"];
            let lists = ["[1, 0]", "[0, 1]", "[1, 2, 3]", "vl", "[2, 0, 2]"];
            let vars = env0(&[3, 0, 1]);
            for l in lists.iter() {
                for p in preds.iter() {
                    for b in bodies.iter() {
                        out.push((format!("{}.filter(x, {}).map(x, {})", l, p, b), vars.clone()));
                        out.push((format!("{}.map(x, {}).filter(x, {})", l, b, p), vars.clone()));
                    }
                    out.push((format!("{}.filter(x, {}).all(x, t(3, x) > 0)", l, p), vars.clone()));
                    out.push((format!("{}.filter(x, {}).exists(x, t(3, x) > 1)", l, p), vars.clone()));
                    out.push((format!("{}.filter(x, {}).exists_one(x, t(3, x) > 0)", l, p), vars.clone()));
                    out.push((format!("{}.filter(x, {}).filter(x, t(3, x) > 0)", l, p), vars.clone()));
                    out.push((format!("{}.filter(y, {}).map(x, t(2, x))", l, p.replace('x', "y")), vars.clone()));
                    out.push((format!("{}.map(x, {}, t(2, x)).map(x, t(3, x))", l, p), vars.clone()));
                    out.push((format!("[{}, [5]].map(y, y.filter(x, {}).map(x, t(2, x)))", l, p), vars.clone()));
                }
                // an error on a reached element aborts the macro; elements after it are not visited (observed through t)
                for body in ["10 / t(1, x) > 2", "t(1, x) > 0 && 10 / x > 0", "10 / x == 10", "t(1, x) == 1", "t(1, x) != nope", "fail(t(1, x)) > 0", "t(1, x) > 1 || 10 / x > 0", "[1][t(1, x)] == 1"] {
                    for m in ["all", "exists", "exists_one"] {
                        out.push((format!("{}.{}(x, {})", l, m, body), vars.clone()));
                        out.push((format!("[{}, [1]].{}(y, y.{}(x, {}))", l, m, m, body), vars.clone()));
                    }
                }
                for b in bodies.iter() {
                    out.push((format!("{}.map(x, {}).map(x, t(3, x))", l, b), vars.clone()));
                    out.push((format!("{}.map(x, x > 0, {}).all(x, t(3, x) > 0)", l, b), vars.clone()));
                    out.push((format!("{}.map(x, t(1, x) > 1, {})", l, b), vars.clone()));
                    out.push((format!("{}.map(x, x != 0, {})", l, b), vars.clone()));
                }
            }
        }
        "c07" => {
            // the range of a macro is evaluated completely, once, before the first element is visited; the arguments of a
            // variadic call once each, left to right
            let vars = env0(&[1, 2, 3]);
            for m in ["all", "exists", "exists_one", "map", "filter"] {
                for body in ["t(9, x) > 0", "t(9, x) > 1", "t(9, x) < 0", "t(9, x) == 2"] {
                    let b = if m == "map" { "t(9, x)" } else { body };
                    for range in ["[t(1, 1), t(2, 2), t(3, 3)]", "[t(1, 3), t(2, 1)]", "[t(1, 1)] + [t(2, 2)]", "{t(1, 1): t(2, 0), t(3, 2): t(4, 0)}", "[[t(1, 1), t(2, 2)], [t(3, 3)]][t(4, 0)]",
                                  "h1([t(1, 1), t(2, 2)])[0]", "(tb(1) ? [t(2, 1), t(3, 2)] : [t(4, 3)])", "[t(1, 1), t(2, 2)].map(y, t(5, y))", "vl.map(y, t(5, y))"] {
                        out.push((format!("{}.{}(x, {})", range, m, b), vars.clone()));
                    }
                }
            }
            for src in ["max(t(1, 1), t(2, 2), t(3, 3))", "min(t(1, 3), t(2, 2))", "max([t(1, 1), t(2, 2)])", "va(t(1, 1), t(2, 2), t(3, 3))", "t(1, 1).va(t(2, 2))", "min(min(t(1, 1), t(2, 2)), t(3, 0))",
                        "max(max(max(t(1, 1))))", "h2(t(1, 1), t(2, 2))", "t(1, 5).m1(t(2, 6))", "size([t(1, 1), t(2, 2)])", "[t(1, 1), t(2, 2)].size()", "string(t(1, 1))", "t(1, 'a').contains(t(2, 'a'))",
                        "t(1, 'a').matches(t(2, 'a'))", "[t(1, 1)].contains(t(2, 1))", "t(1, 1) in [t(2, 1), t(3, 1)]", "{t(1, 'a'): t(2, 1)}[t(3, 'a')]", "[t(1, 1), t(2, 2)][t(3, 0)]", "t(1, vm).a",
                        "has(t(1, vm).a)", "t(1, true) ? t(2, 1) : t(3, 2)", "-t(1, 1)", "!t(1, true)", "t(1, 1) + t(2, 2) * t(3, 3)", "double(t(1, 1))", "int(t(1, '7'))", "duration(t(1, '1s'))",
                        "timestamp(t(1, '2024-01-01T00:00:00Z')).getFullYear()"] {
                out.push((src.to_string(), vars.clone()));
            }
        }
        "c14" => {
            // + on lists / strings with every mixture of shared (context variable) and temporary operands
            let ls: Vec<Value> = vec![list(vec![]), list(vec![Value::Int(1)]), list(vec![Value::Int(1), Value::Int(2)]), list(vec![Value::Int(1), Value::Int(2), Value::Int(3)]),
                                      list(vec![s("a"), s("b")])];
            let lits = ["[]", "[7]", "[7, 8]", "[3, 4, 5]", "[6, 7, 8, 9]"];
            for a in ls.iter() {
                for b in ls.iter() {
                    let vars = vec![("a".to_string(), a.clone()), ("b".to_string(), b.clone())];
                    for src in ["a + b", "a + a", "(a + b) + a", "a + (b + a)", "a + b + b", "size(a + b)", "(a + b)[0]", "(a + b)[size(a)]", "a + b == a + b", "(a + b) + a == a + (b + a)",
                                "a + b.map(x, x)", "a.map(x, x) + b", "a.filter(x, true) + b.filter(x, true)", "[a + b, a, b]"] {
                        out.push((src.to_string(), vars.clone()));
                    }
                }
                for l in lits.iter() {
                    let vars = vec![("a".to_string(), a.clone())];
                    for src in [format!("a + {}", l), format!("{} + a", l), format!("a + {} + a", l), format!("{} + a + {}", l, l), format!("a + ({} + {})", l, l), format!("(a + {}) + {}", l, l),
                                format!("size(a + {})", l), format!("(a + {})[0]", l), format!("(a + {})[size(a)]", l), format!("({} + a)[size({})]", l, l)] {
                        out.push((src, vars.clone()));
                    }
                }
            }
            let ss = ["", "a", "ab", "é🐱"];
            for a in ss.iter() {
                for l in ["''", "'xyz'", "'ß'"] {
                    let vars = vec![("a".to_string(), s(a))];
                    for src in [format!("a + {}", l), format!("{} + a", l), format!("a + {} + a", l), format!("size(a + {})", l)] {
                        out.push((src, vars.clone()));
                    }
                }
            }
            // map keys that are also names of registered functions: a key wins over a function in every query form
            for key in ["size", "max", "h1", "string", "a", "k1", "contains", "has"] {
                for present in [true, false] {
                    let m = if present { map1(key, Value::Int(10)) } else { map1("other", Value::Int(10)) };
                    let vars = vec![("m".to_string(), m), ("k".to_string(), s(key))];
                    for src in [format!("m.{}", key), format!("has(m.{})", key), format!("'{}' in m", key), format!("m['{}']", key), format!("m.contains('{}')", key), "k in m".to_string(), "m[k]".to_string(),
                                format!("{{'{}': 10}}.{}", key, key), format!("has({{'{}': 10}}.{})", key, key), format!("m.{} == m['{}']", key, key), format!("[m].map(e, e.{})", key),
                                format!("[m].all(e, has(e.{}))", key)] {
                        out.push((src, vars.clone()));
                    }
                }
            }
        }
        _ => {}
    }
    out
}

pub fn drive(profile: &str, seed: u64, n: usize, depth: usize, out: &mut dyn Write) -> Stats {
    let mut rng = Rng::new(seed);
    let mut st = Stats { cases: 0, compile_fail: 0, panics: 0 };
    let mut id = 0;
    for (src, vars) in directed(profile) {
        id += 1;
        match case_for(id, &src, &vars) {
            Some(c) => {
                writeln!(out, "{}", c).unwrap();
                st.cases += 1;
            }
            None => st.compile_fail += 1,
        }
    }
    let n = n + st.cases;
    while st.cases < n {
        id += 1;
        let mut r = rng.fork();
        match one_case(id, &mut r, profile, depth) {
            Some(c) => {
                if c["out"]["k"] == "panic" {
                    st.panics += 1;
                }
                writeln!(out, "{}", c).unwrap();
                st.cases += 1;
            }
            None => {
                st.compile_fail += 1;
                if st.compile_fail > n + 100 {
                    break;
                }
            }
        }
    }
    st
}

/// The context of spec/CelEvalMC.tla (Env0).
pub fn env0(vl: &[i64]) -> Vec<(String, Value)> {
    use cel_interpreter::objects::{Key, Map};
    use std::collections::HashMap;
    use std::sync::Arc;
    let mut m = HashMap::new();
    m.insert(Key::String(Arc::new("a".to_string())), Value::Int(1));
    m.insert(Key::String(Arc::new("b".to_string())), Value::Int(0));
    vec![
        ("vi".to_string(), Value::Int(7)),
        ("x".to_string(), Value::Int(40)),
        ("vl".to_string(), Value::List(Arc::new(vl.iter().map(|i| Value::Int(*i)).collect()))),
        ("vm".to_string(), Value::Map(Map { map: Arc::new(m) })),
    ]
}

/// C02 "kind table": every operator / built-in / macro form applied to every ordered pair of a pool
/// holding representatives (and extremes) of every value kind, as context variables a and b.
pub fn c02_table(seed: u64, thorough: bool, out: &mut dyn Write) -> Stats {
    use std::sync::Arc;
    let mut rng = Rng::new(seed);
    let s = |x: &str| Value::String(Arc::new(x.to_string()));
    let mut pool: Vec<Value> = vec![
        Value::Int(0), Value::Int(1), Value::Int(-1), Value::Int(i64::MAX), Value::Int(i64::MIN), Value::UInt(0), Value::UInt(1), Value::UInt(u64::MAX),
        Value::Float(f64::NAN), Value::Float(f64::INFINITY), Value::Float(-0.0), Value::Float(1.5), Value::Float(1e19), Value::Float(-1e300),
        s(""), s("a"), s("héllo"), s("日本"), s("🐱x"), s("1h30m"), s("1e13h"), s("9223372036854775807s"), s("infs"), s("nan"), s("-9223372036854775808"),
        s("2024-02-29T23:59:59.5+02:00"), s("99999999999999999h"), s("^(a+)+$"), s("("), s("18446744073709551616"), s("1.5"), s("-0"), s("0x10"),
        Value::Bytes(Arc::new(vec![])), Value::Bytes(Arc::new(vec![0xff, 0xfe])), Value::Bytes(Arc::new("é".as_bytes().to_vec())),
        Value::Bytes(Arc::new(b"abc".to_vec())), Value::Bytes(Arc::new(b"ca".to_vec())), Value::Bytes(Arc::new(b"bb".to_vec())), Value::Bytes(Arc::new(b"ab".to_vec())), Value::Bytes(Arc::new(vec![0xfe, 0xff])),
        Value::Bool(true), Value::Bool(false), Value::Null,
        Value::List(Arc::new(vec![])), Value::List(Arc::new(vec![Value::Int(1), Value::Int(2), Value::Int(3)])), Value::List(Arc::new(vec![s("é"), Value::Null])),
        Value::Function(Arc::new("size".into()), None),
    ];
    for _ in 0..(if thorough { 24 } else { 8 }) {
        pool.push(gen::gen_any_value(&mut rng, 2, true));
    }
    for d in [chrono::Duration::MAX, chrono::Duration::MIN, chrono::Duration::nanoseconds(-1), chrono::Duration::seconds(5400)] {
        pool.push(Value::Duration(d));
    }
    pool.push(Value::Timestamp(chrono::DateTime::<chrono::Utc>::MAX_UTC.fixed_offset()));
    pool.push(Value::Timestamp(chrono::DateTime::<chrono::Utc>::MIN_UTC.fixed_offset()));
    pool.push(Value::Timestamp(chrono::DateTime::parse_from_rfc3339("2024-02-29T23:59:59.5+02:00").unwrap()));
    // chrono's limits viewed at non-zero offsets: the local date lies beyond the limit
    for off in [-86399, -3600, 3600, 86399] {
        let fo = chrono::FixedOffset::east_opt(off).unwrap();
        pool.push(Value::Timestamp(chrono::DateTime::<chrono::Utc>::MAX_UTC.with_timezone(&fo)));
        pool.push(Value::Timestamp(chrono::DateTime::<chrono::Utc>::MIN_UTC.with_timezone(&fo)));
    }
    let unary: Vec<String> = {
        let mut v: Vec<String> = ["-a", "!a", "a[0]", "a[1]", "a[-1]", "a.k", "has(a.k)", "[a]", "{a: 1}", "{1: a}", "a ? 1 : 2", "a.all(x, x)", "a.exists(x, true)",
            "a.exists_one(x, x == x)", "a.map(x, x)", "a.filter(x, true)", "a.map(x, true, x)", "a()", "a.a()", "Msg{f: a}", "t(1, a)", "va(a)", "m0(a)", "a.m0()", "idf(a)"]
            .iter().map(|s| s.to_string()).collect();
        for f in ["size", "string", "bytes", "double", "int", "uint", "duration", "timestamp", "min", "max", "getFullYear", "getMonth", "getDayOfYear", "getDayOfMonth",
                  "getDate", "getDayOfWeek", "getHours", "getMinutes", "getSeconds", "getMilliseconds", "fi", "fu", "fd", "fs", "fy", "fb", "fl"] {
            v.push(format!("{}(a)", f));
            v.push(format!("a.{}()", f));
        }
        v
    };
    let binary: Vec<String> = {
        let mut v: Vec<String> = ["a + b", "a - b", "a * b", "a / b", "a % b", "a == b", "a != b", "a < b", "a <= b", "a > b", "a >= b", "a in b", "a && b", "a || b",
            "a[b]", "{a: b}", "[a, b]", "a ? b : a", "a.all(x, b)", "a.map(x, x + b)", "a.filter(x, x == b)", "a.exists(x, x in b)", "b.map(a, a)", "h2(a, b)", "a.m1(b)", "min(a, b)", "max(a, b)",
            "msi(a, b)", "a.msi(b)", "fis(a, b)"]
            .iter().map(|s| s.to_string()).collect();
        for f in ["contains", "startsWith", "endsWith", "matches"] {
            v.push(format!("{}(a, b)", f));
            v.push(format!("a.{}(b)", f));
        }
        v
    };
    let mut st = Stats { cases: 0, compile_fail: 0, panics: 0 };
    let mut id = 0;
    let mut emit = |src: &str, vars: &[(String, Value)], st: &mut Stats, out: &mut dyn Write| {
        id += 1;
        match case_for(id, src, vars) {
            Some(c) => {
                if c["out"]["k"] == "panic" {
                    st.panics += 1;
                }
                writeln!(out, "{}", c).unwrap();
                st.cases += 1;
            }
            None => st.compile_fail += 1,
        }
    };
    for a in &pool {
        let vars = vec![("a".to_string(), a.clone())];
        for src in &unary {
            emit(src, &vars, &mut st, out);
        }
    }
    for a in &pool {
        for b in &pool {
            // quick tier: every pair for a seeded third of the binary forms
            let vars = vec![("a".to_string(), a.clone()), ("b".to_string(), b.clone())];
            for src in &binary {
                if !thorough && !rng.chance(1, 6) {
                    continue;
                }
                emit(src, &vars, &mut st, out);
            }
        }
    }
    st
}

fn id_empty(st: &mut Stats, out: &mut dyn Write, id: &mut usize, src: &str) {
    *id += 1;
    if let run::Compiled::Ok(p, ast) = run::compile(src) {
        let r = std::panic::catch_unwind(std::panic::AssertUnwindSafe(|| p.execute(&cel_interpreter::Context::empty())));
        writeln!(out, "{}", json!({"ev": "case", "id": *id, "src": src, "text": crate::enc::cps(src), "ast": ast, "vars": [], "log": [], "out": run::outcome(r), "registry": "empty"})).unwrap();
        st.cases += 1;
    }
}

/// C20: call binding.  Every zoo signature x 0..arity+2 arguments of matching and mismatching kinds
/// x both call styles; every receiver-style built-in x receivers/arguments of every kind in both
/// styles (the two outcomes are recorded side by side); built-ins overridden by host functions.
pub fn c20_table(seed: u64, thorough: bool, out: &mut dyn Write) -> Stats {
    use std::sync::Arc;
    let mut rng = Rng::new(seed);
    let s = |x: &str| Value::String(Arc::new(x.to_string()));
    // one variable per kind
    let kinds: Vec<(&str, Value)> = vec![
        ("ki", Value::Int(5)), ("ku", Value::UInt(6)), ("kd", Value::Float(1.5)), ("ks", s("ab")), ("ky", Value::Bytes(Arc::new(vec![1, 2]))),
        ("kb", Value::Bool(true)), ("kl", Value::List(Arc::new(vec![Value::Int(1), s("a")]))), ("kn", Value::Null),
        ("km", gen::gen_value(&mut rng, &T::Map(Box::new(T::Str), Box::new(T::Int)), 3)),
        ("kdur", Value::Duration(chrono::Duration::seconds(90))), ("kts", Value::Timestamp(chrono::DateTime::parse_from_rfc3339("2024-02-29T23:59:59.5+02:00").unwrap())),
    ];
    let vars: Vec<(String, Value)> = kinds.iter().map(|(n, v)| (n.to_string(), v.clone())).collect();
    let names: Vec<&str> = kinds.iter().map(|(n, _)| *n).collect();
    // zoo function -> (arity counted in call arguments for the global style, preferred kinds)
    let zoo: Vec<(&str, Vec<&str>)> = vec![
        ("t", vec!["ki", "ks"]), ("tb", vec!["ki"]), ("fail", vec!["ki"]), ("h0", vec![]), ("h1", vec!["ks"]), ("h2", vec!["ki", "ks"]), ("h3", vec!["ki", "ks", "kb"]),
        ("h4", vec!["ki", "ks", "kb", "kl"]), ("h9", vec!["ki", "ku", "kd", "ks", "ky", "kb", "kl", "kn", "km"]), ("m0", vec!["ks"]), ("m1", vec!["ks", "ki"]),
        ("m2", vec!["ks", "ki", "kb"]), ("m3", vec!["kl", "ki", "kb", "kn"]), ("va", vec!["ki", "ks"]), ("idf", vec!["ki"]), ("fi", vec!["ki"]), ("fu", vec!["ku"]),
        ("fd", vec!["kd"]), ("fs", vec!["ks"]), ("fy", vec!["ky"]), ("fb", vec!["kb"]), ("fl", vec!["kl"]), ("fis", vec!["ki", "ks"]), ("msi", vec!["ks", "ki"]),
        ("c0", vec![]), ("c2", vec!["ks", "ki"]), ("mo", vec!["kn", "ki", "ks"]), ("rs", vec!["ki", "ks"]), ("mw", vec!["ks", "ki", "kb"]),
        // the same two with the arguments a method-style call needs (receiver first)
        ("rs", vec!["ks", "ki"]), ("mw", vec!["ki", "ks", "kb"]),
    ];
    let mut st = Stats { cases: 0, compile_fail: 0, panics: 0 };
    let mut id = 0usize;
    let mut emit = |src: String, twin: Option<String>, overrides: &[String], st: &mut Stats, out: &mut dyn Write| {
        id += 1;
        let run_one = |src: &str| -> Option<(J, J, Vec<J>)> {
            match run::compile(src) {
                run::Compiled::Ok(p, ast) => {
                    let (o, l) = run::execute_with(&p, &vars, true, overrides);
                    Some((ast, o, l))
                }
                _ => None,
            }
        };
        match run_one(&src) {
            Some((ast, o, l)) => {
                if o["k"] == "panic" {
                    st.panics += 1;
                }
                let mut c = json!({"ev": "case", "id": id, "src": src, "ast": ast, "vars": run::vars_json(&vars), "log": l, "out": o, "overrides": overrides});
                if let Some(t) = twin {
                    if let Some((_, o2, l2)) = run_one(&t) {
                        c["twin"] = json!({"src": t, "out": o2, "log": l2});
                    }
                }
                writeln!(out, "{}", c).unwrap();
                st.cases += 1;
            }
            None => st.compile_fail += 1,
        }
    };
    let call = |f: &str, args: &[&str], recv: bool| -> String {
        if recv && !args.is_empty() {
            format!("{}.{}({})", args[0], f, args[1..].join(", "))
        } else {
            format!("{}({})", f, args.join(", "))
        }
    };
    for (f, pref) in &zoo {
        let k = pref.len();
        for n in 0..=(k + 2) {
            // matching kinds, extended by extra arguments
            let base: Vec<&str> = (0..n).map(|i| if i < k { pref[i] } else { "ki" }).collect();
            for recv in [false, true] {
                emit(call(f, &base, recv), None, &[], &mut st, out);
            }
            // one mismatching kind per position
            for pos in 0..n.min(k) {
                for other in &names {
                    if *other == pref[pos] || (!thorough && !rng.chance(1, 2)) {
                        continue;
                    }
                    let mut a = base.clone();
                    a[pos] = other;
                    for recv in [false, true] {
                        emit(call(f, &a, recv), None, &[], &mut st, out);
                    }
                }
            }
        }
        // a receiver of another kind in front of the complete, well-kinded argument list: the receiver must
        // still be the value bound to the receiver parameter (never skipped in favour of the first argument)
        if k >= 1 {
            for other in &names {
                if *other == pref[0] {
                    continue;
                }
                let mut a: Vec<&str> = vec![other];
                a.extend(pref.iter());
                emit(call(f, &a, true), None, &[], &mut st, out);
            }
        }
        // an argument that is an expression with an effect / an error / an identifier
        if k >= 1 {
            let mut a: Vec<&str> = pref.clone();
            a[0] = "t(1, ki)";
            emit(call(f, &a, false), None, &[], &mut st, out);
            a[0] = "(1 / 0)";
            emit(call(f, &a, false), None, &[], &mut st, out);
            emit(call(f, &a, true), None, &[], &mut st, out);
        }
    }
    // receiver-style built-ins: x.f(args) and f(x, args) side by side
    let unary_b = ["size", "string", "int", "uint", "double", "getFullYear", "getMonth", "getDayOfYear", "getDayOfMonth", "getDate", "getDayOfWeek", "getHours",
                   "getMinutes", "getSeconds", "getMilliseconds"];
    let binary_b = ["contains", "startsWith", "endsWith", "matches"];
    for f in unary_b {
        for x in &names {
            emit(format!("{}.{}()", x, f), Some(format!("{}({})", f, x)), &[], &mut st, out);
        }
    }
    for f in binary_b {
        for x in &names {
            emit(format!("{}.{}(ks, ks)", x, f), None, &[], &mut st, out);
            for y in &names {
                emit(format!("{}.{}({})", x, f, y), Some(format!("{}({}, {})", f, x, y)), &[], &mut st, out);
            }
        }
    }
    // literal receivers and literal arguments, every receiver x argument in both styles, twice over (within one process:
    // whatever a built-in remembers between calls must not change what a later call returns)
    for _round in 0..2 {
        for f in ["matches", "contains", "startsWith", "endsWith"] {
            for x in ["'abc'", "'bcd'", "'k1'", "'^a'", "'c$'", "''"] {
                for y in ["'^a'", "'^b'", "'c$'", "'d$'", "'b'", "'k|z'", "'abc'", "'[a-c]+'", "''", "'^k1$'"] {
                    emit(format!("{}({}, {})", f, x, y), Some(format!("{}.{}({})", x, f, y)), &[], &mut st, out);
                    emit(format!("{}.{}({})", y, f, x), Some(format!("{}({}, {})", f, y, x)), &[], &mut st, out);
                }
            }
        }
    }
    // a host function registered under a built-in's name replaces it
    for f in ["size", "contains", "int", "startsWith", "t"] {
        let ov = vec![f.to_string()];
        for x in &names {
            emit(format!("{}({})", f, x), None, &ov, &mut st, out);
            emit(format!("{}.{}()", x, f), None, &ov, &mut st, out);
            emit(format!("{}({}, ki)", f, x), None, &ov, &mut st, out);
        }
        emit(format!("{}()", f), None, &ov, &mut st, out);
        emit(format!("[1, 2].map(x, {}(x))", f), None, &ov, &mut st, out);
    }
    let mut id2 = 1_000_000usize;
    // Context::empty(): no function at all is registered (operators and macros still work); and
    // Context::resolve_all evaluates a sequence of expressions like a list literal
    for src in ["size([1])", "[1].size()", "1 + 2", "[1, 2].map(x, x * 2)", "has({'a': 1}.a)", "int('1')", "t(1, 2)", "[1].all(x, size(x) > 0)", "-(1)", "!true", "{'a': 1}.a", "x"] {
        id_empty(&mut st, out, &mut id2, src);
    }
    for parts in [vec!["1", "2"], vec!["t(1, 1)", "t(2, 2)", "t(3, 3)"], vec!["1", "1 / 0", "t(9, 9)"], vec![], vec!["undeclared_v", "t(1, 1)"], vec!["[t(1, 1)]", "{'a': t(2, 2)}"]] {
        id2 += 1;
        let exprs: Vec<cel_parser::Expression> = parts.iter().map(|p| cel_parser::Parser::new().parse(p).unwrap()).collect();
        let log = crate::zoo::new_log();
        let r = std::panic::catch_unwind(std::panic::AssertUnwindSafe(|| {
            let mut ctx = cel_interpreter::Context::default();
            crate::zoo::register(&mut ctx, &log);
            ctx.resolve_all(&exprs)
        }));
        let l = log.lock().map(|g| g.clone()).unwrap_or_default();
        let joined = format!("[{}]", parts.join(", "));
        if let run::Compiled::Ok(_, ast) = run::compile(&joined) {
            writeln!(out, "{}", json!({"ev": "case", "id": id2, "src": joined, "ast": ast, "vars": [], "log": l, "out": run::outcome(r), "api": "resolve_all"})).unwrap();
            st.cases += 1;
        }
    }
    st
}
