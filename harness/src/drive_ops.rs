//! Single operator applications (families c08, c09, c14, c02): literals, context variables and
//! the host-side operator impls on `Value`.
use crate::enc;
use crate::gen;
use crate::rng::Rng;
use crate::run;
use cel_interpreter::objects::{Key, Map};
use cel_interpreter::{Context, Program, Value};
use serde_json::{json, Value as J};
use std::collections::HashMap;
use std::io::Write;
use std::panic::{catch_unwind, AssertUnwindSafe};
use std::sync::Arc;

pub fn i64_boundary() -> Vec<i64> {
    let mut v: Vec<i64> = vec![0, 1, 2, 3, 7, 10, 255, 256, 65535, 65536, 3037000499, 3037000500];
    for k in [31u32, 32, 53, 62] {
        let p = 1i64 << k;
        v.extend_from_slice(&[p - 1, p, p + 1]);
    }
    v.extend_from_slice(&[i64::MAX - 1, i64::MAX, 4611686014132420609, 6074000999]);
    let mut neg: Vec<i64> = v.iter().filter(|x| **x != 0).map(|x| -x).collect();
    neg.extend_from_slice(&[i64::MIN, i64::MIN + 1]);
    v.extend(neg);
    v.sort();
    v.dedup();
    v
}

pub fn u64_boundary() -> Vec<u64> {
    let mut v: Vec<u64> = vec![0, 1, 2, 3, 7, 10, 255, 256, 65535, 65536, 3037000499, 3037000500, 4294967295, 4294967296, 4294967297, 6074000999, 6074001000];
    for k in [31u32, 53, 62, 63] {
        let p = 1u64 << k;
        v.extend_from_slice(&[p - 1, p, p + 1]);
    }
    v.extend_from_slice(&[u64::MAX - 1, u64::MAX, 9223372036854775806, 12297829382473034410]);
    v.sort();
    v.dedup();
    v
}

pub fn lit_of(v: &Value) -> Option<String> {
    Some(match v {
        Value::Int(i) => format!("({})", i),
        Value::UInt(u) => format!("{}u", u),
        Value::Float(f) if f.is_finite() => format!("({})", gen::dbl_lit(*f)),
        Value::String(s) => gen::str_lit(s),
        Value::Bytes(b) => gen::bytes_lit(b),
        Value::Bool(b) => format!("{}", b),
        Value::Null => "null".to_string(),
        Value::List(l) => format!("[{}]", l.iter().map(lit_of).collect::<Option<Vec<_>>>()?.join(", ")),
        _ => return None,
    })
}

fn op_sym(op: &str) -> &'static str {
    match op {
        "add" => "+", "sub" => "-", "mul" => "*", "div" => "/", "rem" => "%",
        "eq" => "==", "ne" => "!=", "lt" => "<", "le" => "<=", "gt" => ">", "ge" => ">=", "in" => "in",
        _ => "?",
    }
}

fn host_apply(op: &str, a: &Value, b: &Value) -> J {
    let (a2, b2) = (a.clone(), b.clone());
    let r = catch_unwind(AssertUnwindSafe(|| match op {
        "add" => run::outcome(Ok(a2 + b2)),
        "sub" => run::outcome(Ok(a2 - b2)),
        "mul" => run::outcome(Ok(a2 * b2)),
        "div" => run::outcome(Ok(a2 / b2)),
        "rem" => run::outcome(Ok(a2 % b2)),
        "heq" => json!({"k": "v", "v": enc::value(&Value::Bool(a2 == b2))}),
        "hcmp" => json!({"k": "cmp", "v": match a2.partial_cmp(&b2) {
            Some(std::cmp::Ordering::Less) => "lt", Some(std::cmp::Ordering::Equal) => "eq",
            Some(std::cmp::Ordering::Greater) => "gt", None => "none" }}),
        _ => json!({"k": "skip"}),
    }));
    match r {
        Ok(j) => j,
        Err(_) => json!({"k": "panic", "msg": run::last_panic()}),
    }
}

fn prog_apply(src: &str, vars: &[(String, Value)]) -> J {
    match run::compile(src) {
        run::Compiled::Ok(p, _) => run::execute(&p, vars, false).0,
        run::Compiled::Err(e) => e,
        run::Compiled::Panic(m) => json!({"k": "compile_panic", "msg": m}),
    }
}

pub struct Emit<'a> {
    pub out: &'a mut dyn Write,
    pub id: usize,
}

impl<'a> Emit<'a> {
    pub fn rec(&mut self, op: &str, form: &str, a: &Value, b: &Value, src: &str, out: J) {
        self.id += 1;
        writeln!(self.out, "{}", json!({"id": self.id, "fam": "op", "op": op, "form": form, "a": enc::value(a), "b": enc::value(b), "src": src, "out": out})).unwrap();
    }
    /// all applicable forms of one binary operator application
    pub fn binary(&mut self, op: &str, a: &Value, b: &Value, host: bool, lits: bool) {
        let sym = op_sym(op);
        let vars = vec![("a".to_string(), a.clone()), ("b".to_string(), b.clone())];
        let src = format!("a {} b", sym);
        let o = prog_apply(&src, &vars);
        self.rec(op, "var", a, b, &src, o);
        if lits {
            if let (Some(la), Some(lb)) = (lit_of(a), lit_of(b)) {
                let src = format!("{} {} {}", la, sym, lb);
                let o = prog_apply(&src, &[]);
                self.rec(op, "lit", a, b, &src, o);
                // one shared operand (context variable), one temporary (literal)
                let src = format!("a {} {}", sym, lb);
                let o = prog_apply(&src, &vars);
                self.rec(op, "varlit", a, b, &src, o);
                let src = format!("{} {} b", la, sym);
                let o = prog_apply(&src, &vars);
                self.rec(op, "litvar", a, b, &src, o);
            }
        }
        if host && matches!(op, "add" | "sub" | "mul" | "div" | "rem") {
            let o = host_apply(op, a, b);
            self.rec(op, "host", a, b, "", o);
        }
    }
}

pub fn drive_c08(seed: u64, thorough: bool, out: &mut dyn Write) -> usize {
    let mut e = Emit { out, id: 0 };
    let mut rng = Rng::new(seed);
    let ip = i64_boundary();
    let up = u64_boundary();
    let ops = ["add", "sub", "mul", "div", "rem"];
    for a in &ip {
        let va = Value::Int(*a);
        // unary minus: variable, literal (parenthesised so that it is an application, not a signed literal)
        let o = prog_apply("-a", &[("a".to_string(), va.clone())]);
        e.rec("neg", "var", &va, &Value::Null, "-a", o);
        let src = format!("-({})", a);
        let o = prog_apply(&src, &[]);
        e.rec("neg", "lit", &va, &Value::Null, &src, o);
        for b in &ip {
            let vb = Value::Int(*b);
            for op in ops {
                e.binary(op, &va, &vb, true, true);
            }
        }
    }
    for a in &up {
        let va = Value::UInt(*a);
        let o = prog_apply("-a", &[("a".to_string(), va.clone())]);
        e.rec("neg", "var", &va, &Value::Null, "-a", o);
        for b in &up {
            let vb = Value::UInt(*b);
            for op in ops {
                e.binary(op, &va, &vb, true, true);
            }
        }
    }
    // mixed kinds: never coerced
    let small: Vec<Value> = vec![Value::Int(0), Value::Int(1), Value::Int(-1), Value::Int(i64::MAX), Value::UInt(0), Value::UInt(1), Value::UInt(u64::MAX),
                                 Value::Float(0.0), Value::Float(1.0), Value::Float(2.5)];
    for a in &small {
        for b in &small {
            if std::mem::discriminant(a) != std::mem::discriminant(b) {
                for op in ops {
                    e.binary(op, a, b, true, true);
                }
            }
        }
    }
    // random pairs: uniform and log-uniform magnitudes
    let n = if thorough { 20000 } else { 1500 };
    for i in 0..n {
        let (a, b) = if i % 2 == 0 {
            (rng.next_u64(), rng.next_u64())
        } else {
            (rng.next_u64() >> rng.below(64), rng.next_u64() >> rng.below(64))
        };
        let op = ops[rng.below(5)];
        if rng.chance(1, 2) {
            e.binary(op, &Value::Int(a as i64), &Value::Int(b as i64), true, true);
        } else {
            e.binary(op, &Value::UInt(a), &Value::UInt(b), true, true);
        }
    }
    e.id
}

pub fn cmp_pool() -> Vec<Value> {
    let s = |x: &str| Value::String(Arc::new(x.to_string()));
    let mut v = vec![
        Value::Int(i64::MIN), Value::Int(i64::MIN + 1), Value::Int(-9007199254740993), Value::Int(-9007199254740992), Value::Int(-1), Value::Int(0), Value::Int(1),
        Value::Int(2), Value::Int(9007199254740992), Value::Int(9007199254740993), Value::Int(i64::MAX - 1), Value::Int(i64::MAX),
        Value::UInt(0), Value::UInt(1), Value::UInt(2), Value::UInt(9007199254740992), Value::UInt(9007199254740993), Value::UInt(i64::MAX as u64),
        Value::UInt(1u64 << 63), Value::UInt((1u64 << 63) + 1), Value::UInt(u64::MAX - 1), Value::UInt(u64::MAX),
        Value::Float(f64::NAN), Value::Float(f64::INFINITY), Value::Float(f64::NEG_INFINITY), Value::Float(0.0), Value::Float(-0.0), Value::Float(1.0),
        Value::Float(-1.0), Value::Float(0.5), Value::Float(1.5), Value::Float(2.0), Value::Float(9007199254740992.0), Value::Float(9007199254740994.0),
        Value::Float(-9007199254740992.0), Value::Float(9223372036854775808.0), Value::Float(-9223372036854775808.0), Value::Float(9223372036854774784.0),
        Value::Float(18446744073709551616.0), Value::Float(18446744073709549568.0), Value::Float(1e300), Value::Float(-1e300), Value::Float(5e-324),
        // non-integers on both sides of zero next to the integers they truncate / round to
        Value::Float(-1.5), Value::Float(-0.5), Value::Float(-2.5), Value::Float(-3.25), Value::Float(2.5), Value::Float(0.25), Value::Int(-2), Value::Int(-3), Value::Int(3), Value::UInt(3),
        Value::Float(-2251799813685248.5), Value::Int(-2251799813685248), Value::Int(-2251799813685249), Value::Float(2251799813685248.5), Value::Int(2251799813685248), Value::UInt(2251799813685249),
        s(""), s("a"), s("b"), s("ab"), s("aa"), s("B"), s("é"), s("z"), s("🐱"), s("\u{ffff}"), s("1"),
        Value::Bool(false), Value::Bool(true), Value::Null,
        Value::Bytes(Arc::new(vec![])), Value::Bytes(Arc::new(vec![97])), Value::Bytes(Arc::new(vec![255])),
        Value::List(Arc::new(vec![])), Value::List(Arc::new(vec![Value::Int(1)])), Value::List(Arc::new(vec![Value::UInt(1)])),
        Value::List(Arc::new(vec![Value::Float(1.0)])), Value::List(Arc::new(vec![Value::Int(1), Value::Int(2)])), Value::List(Arc::new(vec![Value::Float(f64::NAN)])),
        Value::List(Arc::new(vec![Value::List(Arc::new(vec![]))])),
        Value::Duration(chrono::Duration::zero()), Value::Duration(chrono::Duration::nanoseconds(1)), Value::Duration(chrono::Duration::seconds(-1)),
    ];
    let mk = |es: Vec<(Key, Value)>| {
        let mut m = HashMap::new();
        for (k, x) in es {
            m.insert(k, x);
        }
        Value::Map(Map { map: Arc::new(m) })
    };
    v.push(mk(vec![]));
    v.push(mk(vec![(Key::String(Arc::new("a".into())), Value::Int(1))]));
    v.push(mk(vec![(Key::String(Arc::new("a".into())), Value::UInt(1))]));
    v.push(mk(vec![(Key::String(Arc::new("a".into())), Value::Int(2))]));
    v.push(mk(vec![(Key::String(Arc::new("b".into())), Value::Int(1))]));
    v.push(mk(vec![(Key::Int(1), Value::Int(1))]));
    v.push(mk(vec![(Key::Uint(1), Value::Int(1))]));
    v.push(mk(vec![(Key::Bool(true), Value::Int(1)), (Key::String(Arc::new("a".into())), Value::Null)]));
    for t in ["2024-02-29T12:00:00Z", "2024-02-29T14:00:00+02:00", "1970-01-01T00:00:00Z"] {
        v.push(Value::Timestamp(chrono::DateTime::parse_from_rfc3339(t).unwrap()));
    }
    v
}

pub fn drive_c09(seed: u64, thorough: bool, out: &mut dyn Write) -> usize {
    let mut e = Emit { out, id: 0 };
    let pool = cmp_pool();
    let mut rng = Rng::new(seed);
    let rels = ["eq", "ne", "lt", "le", "gt", "ge"];
    let n = pool.len();
    for i in 0..n {
        for j in 0..n {
            let (a, b) = (&pool[i], &pool[j]);
            // quick tier: all pairs within the numeric block and a seeded third of the rest
            let numeric = |v: &Value| matches!(v, Value::Int(_) | Value::UInt(_) | Value::Float(_));
            if !thorough && !(numeric(a) && numeric(b)) && !rng.chance(1, 3) {
                continue;
            }
            for op in rels {
                e.binary(op, a, b, false, numeric(a) && numeric(b));
            }
            let o = host_apply("heq", a, b);
            e.rec("heq", "host", a, b, "", o);
            let o = host_apply("hcmp", a, b);
            e.rec("hcmp", "host", a, b, "", o);
            let vars = vec![("a".to_string(), a.clone()), ("b".to_string(), b.clone())];
            let o = prog_apply("a in [b]", &vars);
            e.rec("in", "var", a, &Value::List(Arc::new(vec![b.clone()])), "a in [b]", o);
            for f in ["min", "max"] {
                let src = format!("{}(a, b)", f);
                let o = prog_apply(&src, &vars);
                e.rec(f, "var", a, b, &src, o);
            }
        }
    }
    // min / max over generated lists of mutually comparable values
    let ints: Vec<Value> = pool.iter().filter(|v| matches!(v, Value::Int(_) | Value::UInt(_))).cloned().collect();
    let nums: Vec<Value> = pool.iter().filter(|v| match v { Value::Int(_) | Value::UInt(_) => true, Value::Float(f) => !f.is_nan(), _ => false }).cloned().collect();
    let strs: Vec<Value> = pool.iter().filter(|v| matches!(v, Value::String(_))).cloned().collect();
    let m = if thorough { 3000 } else { 400 };
    for k in 0..m {
        let src_pool = match k % 3 { 0 => &ints, 1 => &nums, _ => &strs };
        let len = 1 + rng.below(6);
        let l: Vec<Value> = (0..len).map(|_| rng.pick(src_pool).clone()).collect();
        let lv = Value::List(Arc::new(l));
        for (f, op) in [("min", "minl"), ("max", "maxl")] {
            let src = format!("{}(a)", f);
            let o = prog_apply(&src, &[("a".to_string(), lv.clone())]);
            e.rec(op, "var", &lv, &Value::Null, &src, o);
        }
    }
    e.id
}

/// The complete observed relation table over the comparison pool, one record per ordered pair.
pub fn cmp_table(out: &mut dyn Write) -> usize {
    let pool = cmp_pool();
    let n = pool.len();
    let mut id = 0;
    let cell = |o: &J| -> &'static str {
        match o["k"].as_str() {
            Some("v") => match o["v"]["v"].as_bool() { Some(true) => "T", Some(false) => "F", None => "E" },
            Some("e") => "E",
            _ => "P",
        }
    };
    fn has_nan(v: &Value) -> bool {
        match v {
            Value::Float(f) => f.is_nan(),
            Value::List(l) => l.iter().any(has_nan),
            Value::Map(m) => m.map.values().any(has_nan),
            _ => false,
        }
    }
    fn mapnum(v: &Value) -> bool {
        match v {
            Value::Map(m) => m.map.iter().any(|(k, x)| matches!(k, Key::Int(_) | Key::Uint(_)) || mapnum(x)),
            Value::List(l) => l.iter().any(mapnum),
            _ => false,
        }
    }
    for i in 0..n {
        for j in 0..n {
            id += 1;
            let vars = vec![("a".to_string(), pool[i].clone()), ("b".to_string(), pool[j].clone())];
            let mut rec = serde_json::Map::new();
            rec.insert("id".into(), json!(id));
            rec.insert("n".into(), json!(n));
            rec.insert("ia".into(), json!(i));
            rec.insert("ib".into(), json!(j));
            rec.insert("a".into(), enc::value(&pool[i]));
            rec.insert("b".into(), enc::value(&pool[j]));
            rec.insert("nan".into(), json!(has_nan(&pool[i]) || has_nan(&pool[j])));
            rec.insert("mapnum".into(), json!(mapnum(&pool[i]) || mapnum(&pool[j])));
            for (f, sym) in [("eq", "=="), ("ne", "!="), ("lt", "<"), ("le", "<="), ("gt", ">"), ("ge", ">=")] {
                let o = prog_apply(&format!("a {} b", sym), &vars);
                rec.insert(f.into(), json!(cell(&o)));
            }
            writeln!(out, "{}", J::Object(rec)).unwrap();
        }
    }
    id
}

fn key_alphabet() -> Vec<Value> {
    let s = |x: &str| Value::String(Arc::new(x.to_string()));
    vec![Value::Int(1), Value::UInt(1), Value::UInt(2), Value::Int(-1), Value::UInt(0), Value::Int(0), Value::Bool(true), s("a"), s("b"), s("k1"), s("size"), s("1"), s("true")]
}

fn to_key(v: &Value) -> Key {
    match v {
        Value::Int(i) => Key::Int(*i),
        Value::UInt(u) => Key::Uint(*u),
        Value::Bool(b) => Key::Bool(*b),
        Value::String(s) => Key::String(s.clone()),
        _ => unreachable!(),
    }
}

/// C14: every map with <= 4 distinct keys of the alphabet, queried by every key of the alphabet and
/// by the int/uint twin of every numeric key, through all query forms; every list of length <= 5
/// with every index in -2..len+1 and the i64 extremes.
pub fn drive_c14(seed: u64, thorough: bool, out: &mut dyn Write) -> usize {
    let mut e = Emit { out, id: 0 };
    let alpha = key_alphabet();
    let mut queries = alpha.clone();
    queries.extend_from_slice(&[Value::Int(2), Value::UInt(u64::MAX), Value::Int(0), Value::UInt(0), Value::Int(i64::MIN), Value::UInt(1u64 << 63), Value::Bool(false), Value::String(Arc::new("zz".into()))]);
    let n = alpha.len();
    let mut rng = Rng::new(seed);
    for mask in 0u32..(1 << n) {
        if mask.count_ones() > 4 {
            continue;
        }
        let keys: Vec<&Value> = (0..n).filter(|i| mask & (1 << i) != 0).map(|i| &alpha[i]).collect();
        // quick tier: all maps with <= 2 keys, a seeded half of the larger ones
        if !thorough && keys.len() > 2 && !rng.chance(1, 4) {
            continue;
        }
        let mut hm = HashMap::new();
        let mut lit_entries = vec![];
        for (i, k) in keys.iter().enumerate() {
            hm.insert(to_key(k), Value::Int(10 + i as i64));
            lit_entries.push(format!("{}: {}", lit_of(k).unwrap(), 10 + i));
        }
        let m = Value::Map(Map { map: Arc::new(hm) });
        let mlit = format!("{{{}}}", lit_entries.join(", "));
        let has_twins = (keys.iter().any(|k| matches!(k, Value::Int(1))) && keys.iter().any(|k| matches!(k, Value::UInt(1)))) || (keys.iter().any(|k| matches!(k, Value::Int(0))) && keys.iter().any(|k| matches!(k, Value::UInt(0))));
        for q in &queries {
            let vars = vec![("m".to_string(), m.clone()), ("k".to_string(), q.clone())];
            let ql = lit_of(q).unwrap();
            let forms: Vec<(&str, String, &Value, &Value)> = vec![
                ("in", "k in m".to_string(), q, &m),
                ("contains", "m.contains(k)".to_string(), &m, q),
                ("idx", "m[k]".to_string(), &m, q),
                ("in", format!("{} in m", ql), q, &m),
                ("idx", format!("m[{}]", ql), &m, q),
            ];
            for (op, src, a, b) in forms {
                let o = prog_apply(&src, &vars);
                e.rec(op, "var", a, b, &src, o);
            }
            if !has_twins {
                // literal maps: the written entries, queried the same ways (a literal holding both 1 and 1u is not pinned)
                for (op, src, a, b) in [("in", format!("{} in {}", ql, mlit), q, &m), ("idx", format!("{}[{}]", mlit, ql), &m, q),
                                        ("contains", format!("{}.contains({})", mlit, ql), &m, q)] {
                    let o = prog_apply(&src, &[]);
                    e.rec(op, "lit", a, b, &src, o);
                }
            }
            if let Value::String(s) = q {
                if s.chars().all(|c| c.is_ascii_alphanumeric()) && s.chars().next().map_or(false, |c| c.is_ascii_alphabetic()) && !["true", "false", "null", "in"].contains(&s.as_str()) {
                    let src = format!("m.{}", s);
                    let o = prog_apply(&src, &vars);
                    // "self": the field is also the name of a registered function (a key still wins)
                    e.rec(if s.as_str() == "size" { "self" } else { "sel" }, "var", &m, q, &src, o);
                    let src = format!("has(m.{})", s);
                    let o = prog_apply(&src, &vars);
                    e.rec("has", "var", &m, q, &src, o);
                }
            }
        }
        let o = prog_apply("size(m)", &[("m".to_string(), m.clone())]);
        e.rec("size", "var", &m, &Value::Null, "size(m)", o);
    }
    // lists
    for len in 0..=5usize {
        let l: Vec<Value> = (0..len).map(|i| Value::Int(10 + i as i64)).collect();
        let lv = Value::List(Arc::new(l));
        let llit = lit_of(&lv).unwrap();
        let mut idxs: Vec<i64> = (-2..=(len as i64 + 1)).collect();
        idxs.extend_from_slice(&[i64::MIN, i64::MAX, 4294967296, -4294967296]);
        for i in idxs {
            let iv = Value::Int(i);
            let vars = vec![("l".to_string(), lv.clone()), ("i".to_string(), iv.clone())];
            let o = prog_apply("l[i]", &vars);
            e.rec("idx", "var", &lv, &iv, "l[i]", o);
            let src = format!("{}[{}]", llit, i);
            let o = prog_apply(&src, &[]);
            e.rec("idx", "lit", &lv, &iv, &src, o);
        }
        for x in [Value::Int(10), Value::UInt(10), Value::Float(11.0), Value::Float(10.0), Value::Float(12.5), Value::UInt(12), Value::Int(99), Value::String(Arc::new("a".into())), Value::String(Arc::new("10".into())), Value::Null] {
            let vars = vec![("l".to_string(), lv.clone()), ("x".to_string(), x.clone())];
            let o = prog_apply("x in l", &vars);
            e.rec("in", "var", &x, &lv, "x in l", o);
            let o = prog_apply("l.contains(x)", &vars);
            e.rec("contains", "var", &lv, &x, "l.contains(x)", o);
        }
    }
    // membership across numeric kinds: lists of doubles / uints / mixed, queried by every kind
    for lv in [vec![Value::Float(1.0), Value::Float(2.0)], vec![Value::UInt(1), Value::UInt(2)], vec![Value::Int(1), Value::Float(2.0), Value::UInt(3)], vec![Value::Float(2.5), Value::Float(f64::NAN)],
               vec![Value::String(Arc::new("1".into())), Value::Int(2)], vec![Value::Bool(true), Value::Int(1)]] {
        let lv = Value::List(Arc::new(lv));
        for x in [Value::Int(1), Value::Int(2), Value::Int(3), Value::UInt(2), Value::UInt(3), Value::Float(1.0), Value::Float(2.0), Value::Float(3.0), Value::Float(2.5), Value::Float(f64::NAN),
                  Value::String(Arc::new("1".into())), Value::Bool(true)] {
            let vars = vec![("l".to_string(), lv.clone()), ("x".to_string(), x.clone())];
            for (op, src, a, b) in [("in", "x in l", &x, &lv), ("contains", "l.contains(x)", &lv, &x)] {
                let o = prog_apply(src, &vars);
                e.rec(op, "var", a, b, src, o);
            }
            if let (Some(ll), Some(xl)) = (lit_of(&lv), lit_of(&x)) {
                let src = format!("{} in {}", xl, ll);
                let o = prog_apply(&src, &[]);
                e.rec("in", "lit", &x, &lv, &src, o);
            }
        }
    }
    // additive laws on random strings and lists: a + b, size(a + b) against the parts
    let m = if thorough { 5000 } else { 600 };
    for k in 0..m {
        let (a, b) = if k % 2 == 0 {
            (gen::gen_value(&mut rng, &gen::T::Str, 4), gen::gen_value(&mut rng, &gen::T::Str, 4))
        } else {
            let t = gen::T::List(Box::new(if k % 4 == 1 { gen::T::Int } else { gen::T::Str }));
            (gen::gen_value(&mut rng, &t, 5), gen::gen_value(&mut rng, &t, 5))
        };
        e.binary("add", &a, &b, true, true);
        let vars = vec![("a".to_string(), a.clone()), ("b".to_string(), b.clone())];
        let o = prog_apply("size(a + b) == size(a) + size(b)", &vars);
        // recorded as an equality whose expected value is `true` whenever the sizes are pinned (ASCII)
        e.rec("sizeadd", "var", &a, &b, "size(a + b) == size(a) + size(b)", o);
    }
    e.id
}

/// C02: the host applies + - * / % == and ordering directly to arbitrary values (all pairs of a pool).
pub fn drive_c02pairs(seed: u64, thorough: bool, out: &mut dyn Write) -> usize {
    let mut e = Emit { out, id: 0 };
    let mut rng = Rng::new(seed);
    let mut pool = cmp_pool();
    let extra = if thorough { 60 } else { 25 };
    for _ in 0..extra {
        pool.push(gen::gen_any_value(&mut rng, 2, true));
    }
    for d in [chrono::Duration::MAX, chrono::Duration::MIN, chrono::Duration::nanoseconds(i64::MAX), chrono::Duration::nanoseconds(i64::MIN + 1)] {
        pool.push(Value::Duration(d));
    }
    pool.push(Value::Timestamp(chrono::DateTime::<chrono::Utc>::MAX_UTC.fixed_offset()));
    pool.push(Value::Timestamp(chrono::DateTime::<chrono::Utc>::MIN_UTC.fixed_offset()));
    pool.push(Value::Function(Arc::new("size".into()), None));
    for a in &pool {
        for b in &pool {
            for op in ["add", "sub", "mul", "div", "rem", "heq", "hcmp"] {
                let o = host_apply(op, a, b);
                e.rec(op, "host", a, b, "", o);
            }
        }
    }
    e.id
}

pub fn dur_boundary() -> Vec<i64> {
    let mut v: Vec<i64> = vec![0, 1, 999, 1000, 1001, 1500, 999_999, 1_000_000, 1_500_000, 999_999_999, 1_000_000_000, 1_000_000_001, 1_500_000_000,
                               59_999_999_999, 60_000_000_000, 61_000_000_000, 3_599_999_999_999, 3_600_000_000_000, 5_400_000_000_000, 3_661_007_000_000,
                               86_400_000_000_000, i64::MAX, i64::MAX - 1, 1 << 53, 1 << 62];
    let neg: Vec<i64> = v.iter().filter(|x| **x != 0).map(|x| -x).collect();
    v.extend(neg);
    v.extend_from_slice(&[i64::MIN, i64::MIN + 1]);
    v
}

/// C15: durations print, parse, add, subtract and compare exactly.
pub fn drive_c15(seed: u64, thorough: bool, out: &mut dyn Write) -> usize {
    let mut e = Emit { out, id: 0 };
    let mut rng = Rng::new(seed);
    let mut ns: Vec<i64> = dur_boundary();
    let extra = if thorough { 4000 } else { 300 };
    for _ in 0..extra {
        let mag = (rng.next_u64() >> rng.below(64)) as i64;
        ns.push(if rng.chance(1, 2) { mag } else { mag.wrapping_neg() });
    }
    let s = |x: String| Value::String(Arc::new(x));
    let mut canon: Vec<String> = vec![];
    for n in &ns {
        let d = Value::Duration(chrono::Duration::nanoseconds(*n));
        let vars = vec![("a".to_string(), d.clone())];
        let o = prog_apply("string(a)", &vars);
        if let Some(cp) = o["v"]["cp"].as_array() {
            canon.push(cp.iter().map(|c| char::from_u32(c.as_u64().unwrap() as u32).unwrap()).collect());
        }
        e.rec("tostr", "var", &d, &Value::Null, "string(a)", o);
        let o = prog_apply("duration(string(a)) == a", &vars);
        e.rec("durrt", "var", &d, &Value::Null, "duration(string(a)) == a", o);
    }
    // well-formed spellings that are not canonical, and the mutation grammar
    let mut strs: Vec<String> = vec!["1h30m", "1.5h", "90m", "1h30m0s", "0.5s", ".5s", "1.s", "1us", "1µs", "1μs", "1ms1us1ns", "0", "-0", "+0", "+1s", "-1.5ms", "0h0m0s", "2562047h47m16.854775807s",
        "2562047h47m16.854775808s", "-2562047h47m16.854775808s", "-2562047h47m16.854775809s", "9223372036854775807ns", "9223372036854775808ns", "0.9999999999ns", "1.9999999999999999ns",
        "00001s", "1.0000000000000000000000000001s", "100000000000000000000h", "1s1s", "1m1h", "0.000000001s", "0.0000000001s", "",
        " ", "1", "s", "h", ".s", ".", "1e3s", "1E3s", "1e-3s", "infs", "inf", "nans", "nan", "NaNs", "1 s", " 1s", "1s ", "1s garbage", "1sx", "1hh", "--1s", "+-1s", "-+1s", "1s-", "1,5s", "0x10s",
        "1d", "1w", "1y", "１s", "1S", "1H", "1.5.5s", "1..5s", "-", "+", "1h-30m", "1h 30m", "١s"].iter().map(|x| x.to_string()).collect();
    // every unit with 1..15 fraction digits: digits beyond nanosecond resolution of the unit still count for h and m
    for unit in ["h", "m", "s", "ms", "us", "ns"] {
        for k in 1..=15usize {
            strs.push(format!("0.{}1{}", "0".repeat(k - 1), unit));
            strs.push(format!("1.{}3{}", "0".repeat(k - 1), unit));
            strs.push(format!("-2.{}{}", "9".repeat(k), unit));
            strs.push(format!("0.{}5{}1ns", "0".repeat(k - 1), unit));
        }
    }
    for c in canon.iter().take(if thorough { 400 } else { 80 }) {
        strs.push(c.clone());
        for m in 0..8 {
            let mut t = c.clone();
            match m {
                0 => t.push('x'),
                1 => t.push(' '),
                2 => t.push('1'),
                3 => { t.pop(); }
                4 => t = format!("-{}", t),
                5 => t = format!("{}e3", t),
                6 => t = t.replace('s', " s"),
                _ => t = format!(" {}", t),
            }
            strs.push(t);
        }
    }
    for t in &strs {
        let v = s(t.clone());
        let o = prog_apply("duration(a)", &[("a".to_string(), v.clone())]);
        e.rec("durparse", "var", &v, &Value::Null, "duration(a)", o);
    }
    // arithmetic and comparison on exact nanosecond counts
    let b = dur_boundary();
    for x in &b {
        for y in &b {
            if !thorough && !rng.chance(1, 3) {
                continue;
            }
            let (a, bb) = (Value::Duration(chrono::Duration::nanoseconds(*x)), Value::Duration(chrono::Duration::nanoseconds(*y)));
            for op in ["add", "sub", "eq", "lt", "le", "gt", "ge", "ne"] {
                e.binary(op, &a, &bb, op == "add" || op == "sub", false);
            }
        }
    }
    e.id
}

fn days_in_month(y: i32, m: u32) -> u32 {
    match m {
        1 | 3 | 5 | 7 | 8 | 10 | 12 => 31,
        4 | 6 | 9 | 11 => 30,
        _ => if (y % 4 == 0 && y % 100 != 0) || y % 400 == 0 { 29 } else { 28 },
    }
}

/// RFC 3339 text written by the harness itself (no chrono involved)
fn rfc3339_text(y: i32, mo: u32, d: u32, h: u32, mi: u32, s: u32, ns: u32, off_min: i32) -> String {
    let frac = if ns == 0 { String::new() } else { format!(".{:09}", ns).trim_end_matches('0').to_string() };
    let zone = if off_min == 0 { "Z".to_string() } else { format!("{}{:02}:{:02}", if off_min < 0 { '-' } else { '+' }, off_min.abs() / 60, off_min.abs() % 60) };
    format!("{:04}-{:02}-{:02}T{:02}:{:02}:{:02}{}{}", y, mo, d, h, mi, s, frac, zone)
}

/// C16: timestamps keep their instant and calendar fields.
pub fn drive_c16(seed: u64, thorough: bool, out: &mut dyn Write) -> usize {
    let mut e = Emit { out, id: 0 };
    let mut rng = Rng::new(seed);
    let years = [1, 4, 100, 400, 1582, 1600, 1900, 1970, 2000, 2023, 2024, 2038, 2100, 9999];
    let offsets: Vec<i32> = if thorough { (-48..=56).map(|q| q * 15).collect() } else { vec![-720, -345, -15, 0, 330, 840] };
    let times = [(0u32, 0u32, 0u32, 0u32), (23, 59, 59, 999_999_999), (12, 30, 45, 123_000_000)];
    let mut texts: Vec<String> = vec![];
    for y in years {
        for mo in 1..=12u32 {
            for d in [1u32, days_in_month(y, mo)] {
                for (h, mi, s, ns) in times {
                    for off in &offsets {
                        if !thorough && !(mo <= 3 || mo == 12 || rng.chance(1, 4)) {
                            continue;
                        }
                        texts.push(rfc3339_text(y, mo, d, h, mi, s, ns, *off));
                    }
                }
            }
        }
    }
    // uniformly random instants, nanoseconds and offsets
    for _ in 0..(if thorough { 20000 } else { 1500 }) {
        let y = 1 + rng.below(9999) as i32;
        let mo = 1 + rng.below(12) as u32;
        let d = 1 + rng.below(days_in_month(y, mo) as usize) as u32;
        texts.push(rfc3339_text(y, mo, d, rng.below(24) as u32, rng.below(60) as u32, rng.below(60) as u32,
                                if rng.chance(1, 3) { 0 } else { rng.below(1_000_000_000) as u32 }, (rng.below(105) as i32 - 48) * 15));
    }
    let accessors = ["getFullYear", "getMonth", "getDayOfYear", "getDayOfMonth", "getDate", "getDayOfWeek", "getHours", "getMinutes", "getSeconds", "getMilliseconds"];
    let sv = |x: &str| Value::String(Arc::new(x.to_string()));
    let mut values: Vec<Value> = vec![];
    for t in &texts {
        let tv = sv(t);
        let vars = vec![("a".to_string(), tv.clone())];
        let o = prog_apply("timestamp(a)", &vars);
        let parsed = if o["k"] == "v" { enc::unvalue(&o["v"]) } else { None };
        e.rec("tsparse", "var", &tv, &Value::Null, "timestamp(a)", o);
        let ts = match parsed { Some(v) => v, None => continue };
        let vars = vec![("a".to_string(), ts.clone())];
        for f in accessors {
            let src = format!("a.{}()", f);
            let o = prog_apply(&src, &vars);
            e.rec(&format!("acc:{}", f), "var", &ts, &Value::Null, &src, o);
        }
        let o = prog_apply("string(a)", &vars);
        e.rec("tsstr", "var", &ts, &Value::Null, "string(a)", o);
        let o = prog_apply("timestamp(string(a)) == a", &vars);
        e.rec("tsrt", "var", &ts, &Value::Null, "timestamp(string(a)) == a", o);
        if values.len() < 400 || rng.chance(1, 20) {
            values.push(ts);
        }
    }
    // malformed / lenient spellings
    for t in ["2024-02-30T00:00:00Z", "2023-02-29T00:00:00Z", "2024-13-01T00:00:00Z", "2024-00-10T00:00:00Z", "2024-01-01T24:00:00Z", "2024-01-01T00:60:00Z", "2024-01-01T23:59:60Z",
              "2024-01-01T00:00:00", "2024-01-01 00:00:00Z", "2024-01-01t00:00:00z", "2024-01-01T00:00:00+24:00", "2024-01-01T00:00:00+0530", "2024-1-1T00:00:00Z", "24-01-01T00:00:00Z",
              "2024-01-01T00:00:00.Z", "2024-01-01T00:00:00.1234567891Z", "2024-01-01T00:00:00.5+05:30", "", "now", "2024-01-01", "10000-01-01T00:00:00Z", "0000-01-01T00:00:00Z",
              "2024-01-01T00:00:00-00:00", "2024-01-01T00:00:00Zx", " 2024-01-01T00:00:00Z", "2024-01-01T00:00:00+14:00", "1900-02-29T00:00:00Z", "2000-02-29T00:00:00Z", "2100-02-29T12:00:00Z"] {
        let tv = sv(t);
        let o = prog_apply("timestamp(a)", &[("a".to_string(), tv.clone())]);
        e.rec("tsparse", "var", &tv, &Value::Null, "timestamp(a)", o);
    }
    // comparisons between instants (same instant at different offsets included) and arithmetic
    let durs: Vec<Value> = [0i64, 1, -1, 1_000_000_000, -1_000_000_000, 86_400_000_000_000, -86_400_000_000_000, 3_600_000_000_000 * 24 * 365 * 292, -3_600_000_000_000 * 24 * 365 * 292,
                            i64::MAX, i64::MIN + 1, 59_999_999_999, 31_622_400_000_000_000]
        .iter().map(|n| Value::Duration(chrono::Duration::nanoseconds(*n))).collect();
    let m = values.len();
    for k in 0..(if thorough { 30000 } else { 2500 }) {
        let a = &values[rng.below(m)];
        let b = if k % 3 == 0 {
            // the same instant rendered at another offset
            match a {
                Value::Timestamp(t) => Value::Timestamp(t.with_timezone(&chrono::FixedOffset::east_opt(((rng.below(105) as i32) - 48) * 900).unwrap())),
                _ => unreachable!(),
            }
        } else {
            values[rng.below(m)].clone()
        };
        for op in ["eq", "ne", "lt", "le", "gt", "ge", "sub"] {
            e.binary(op, a, &b, op == "sub", false);
        }
        let d = &durs[rng.below(durs.len())];
        e.binary("add", a, d, true, false);
        e.binary("add", d, a, true, false);
        e.binary("sub", a, d, true, false);
        let vars = vec![("a".to_string(), a.clone()), ("b".to_string(), d.clone())];
        let o = prog_apply("a + b - b == a", &vars);
        e.rec("tslaw1", "var", a, d, "a + b - b == a", o);
        let o = prog_apply("(a + b) - a == b", &vars);
        e.rec("tslaw2", "var", a, d, "(a + b) - a == b", o);
    }
    e.id
}

/// Regular expressions (`matches`): every token string up to 3 (thorough: 4) tokens over a small token alphabet, and
/// a pool of longer patterns, each against one list of texts (all words up to length 3 over {a, b}, plus texts
/// with line feeds and non-ASCII characters).  One record per pattern: the list of answers.
pub fn drive_rx(_seed: u64, thorough: bool, out: &mut dyn Write) -> usize {
    let mut e = Emit { out, id: 0 };
    let s = |x: &str| Value::String(Arc::new(x.to_string()));
    let mut texts: Vec<String> = vec![String::new()];
    let mut frontier = vec![String::new()];
    for _ in 0..3 {
        let mut next = vec![];
        for w in &frontier {
            for c in ["a", "b"] {
                next.push(format!("{}{}", w, c));
            }
        }
        texts.extend(next.iter().cloned());
        frontier = next;
    }
    texts.extend(["a\nb", "\n", "a\n", "\nb", "é", "aéb", "ab ab", "A", "abab", "aabb", "b_a", "0a9"].iter().map(|x| x.to_string()));
    let tv = Value::List(Arc::new(texts.iter().map(|t| s(t)).collect()));
    let tokens = ["a", "b", ".", "*", "+", "?", "|", "(", ")", "^", "$", "[a]", "[^a]"];
    let mut pats: Vec<String> = vec![String::new()];
    let mut frontier = vec![String::new()];
    for _ in 0..(if thorough { 4 } else { 3 }) {
        let mut next = vec![];
        for w in &frontier {
            for t in tokens.iter() {
                next.push(format!("{}{}", w, t));
            }
        }
        pats.extend(next.iter().cloned());
        frontier = next;
    }
    for p in ["^[a-z]*$", "^(a|b)+$", "(ab)*", "^(ab)*$", "a.b", "^a.b$", "[^b]$", "^[^a]", "[a-b][a-b][a-b]", "^(a|ab)(b|)$", "(a*)*", "(a|b)*abb", "^(a+)+$", "é", "a?é.b", "[0-9]a[0-9]", "^[A-Z]$",
              "b_a", "ab ab", "(((a)))", "((((a))))", "(((((a)))))", "a|b|", "|", "()", "(|a)b", "^$", "^^a", "a$$", "$a", "b^", "(^a|b$)", "(a$|^b)", "x*", "x+", "^x?$", "[a-a]", "[b-a]", "[a-]", "[]", "[]a]", "[^]",
              "a{2}", "a*?", "a+?", "a??", "a**", "\\d", "\\.", "(?i)a", "(?:a)", "(?P<n>a)", "a\\b", ".\n.", "[[:alpha:]]", "\\pL", "(", ")", "a)", "(a", "*a", "+", "?", "a|*", "[", "a[", "[a", "^*", "$+"] {
        pats.push(p.to_string());
    }
    for p in pats {
        let pv = s(&p);
        let vars = vec![("ts".to_string(), tv.clone()), ("p".to_string(), pv.clone())];
        let o = prog_apply("ts.map(t, t.matches(p))", &vars);
        e.rec("rxtable", "var", &tv, &pv, "ts.map(t, t.matches(p))", o);
    }
    e.id
}

/// C13: numeric literals in every form, and the conversions int() uint() double() string() bytes().
pub fn drive_c13(seed: u64, thorough: bool, out: &mut dyn Write) -> usize {
    let mut e = Emit { out, id: 0 };
    let mut rng = Rng::new(seed);
    let s = |x: &str| Value::String(Arc::new(x.to_string()));
    let mut lits: Vec<String> = vec![];
    let mut ints: Vec<i64> = i64_boundary();
    let mut uints: Vec<u64> = u64_boundary();
    for _ in 0..(if thorough { 3000 } else { 300 }) {
        ints.push((rng.next_u64() >> rng.below(64)) as i64 * if rng.chance(1, 2) { 1 } else { -1 });
        uints.push(rng.next_u64() >> rng.below(64));
    }
    for i in &ints {
        lits.push(format!("{}", i));
        let mag = i.unsigned_abs();
        let sign = if *i < 0 { "-" } else { "" };
        lits.push(format!("{}0x{:x}", sign, mag));
        lits.push(format!("{}0x{:X}", sign, mag));
        lits.push(format!("{}.0", i));
        if *i >= 0 {
            lits.push(format!("{}u", i));
        }
    }
    for u in &uints {
        lits.push(format!("{}u", u));
        lits.push(format!("{}U", u));
        lits.push(format!("0x{:x}u", u));
        lits.push(format!("{}", u));          // as an int literal: out of range above i64::MAX
        lits.push(format!("0x{:x}", u));
        lits.push(format!("-{}", u));
    }
    for t in ["9223372036854775808", "-9223372036854775809", "0x8000000000000000", "-0x8000000000000000", "-0x8000000000000001", "18446744073709551616u", "0x10000000000000000u",
              "0xFFFFFFFFFFFFFFFFu", "00", "007", "0x0", "-0", "0u", "-0.0", "0.0", "1e0", "1E0", "1e+0", "1e-0", "1.0e308", "1.7976931348623157e308", "1.7976931348623158e308",
              "1.7976931348623159e308", "1.8e308", "1e309", "4.9e-324", "2.4703282292062327e-324", "2.4703282292062328e-324", "2.5e-324", "1e-400", "0.1", "0.2", "0.30000000000000004",
              "9007199254740993.0", "9007199254740992.5", "9007199254740993.5", "18446744073709551615.0", "9223372036854775807.0", "1.5e300", ".5", "5.", "1e", "1.e5", "0x1.8p1", "1_000",
              "123456789012345678901234567890.0", "0.000000000000000000000000000001", "2.2250738585072011e-308", "2.2250738585072014e-308", "100000000000000000000000.0",
              "8.41e21", "5e-324", "3e-324", "1.0000000000000002", "1.00000000000000011102230246251565404236316680908203125", "1.00000000000000011102230246251565404236316680908203126"] {
        lits.push(t.to_string());
    }
    let mut dbls: Vec<f64> = gen::DBL_POOL.to_vec();
    dbls.extend_from_slice(&[f64::MAX, f64::MIN_POSITIVE, f64::EPSILON, 2.2250738585072009e-308, 1e21, 1e-7, 123456.789, 0.3, 1.0 / 3.0, 2f64.powi(70), 2f64.powi(-70),
                             9007199254740991.0, 9007199254740993.0, -9223372036854775808.0, 9223372036854774784.0, 18446744073709549568.0, 4294967296.5]);
    // random bit patterns; most with a moderate binary exponent (exact decimal/binary comparison of
    // 300-digit numbers is slow in TLC), a few anywhere in the range
    for k in 0..(if thorough { 4000 } else { 400 }) {
        let bits = rng.next_u64();
        let f = if k % (if thorough { 8 } else { 40 }) == 0 {
            f64::from_bits(bits)
        } else {
            let exp = 1023 - 100 + (rng.below(200) as u64);
            f64::from_bits((bits & 0x800f_ffff_ffff_ffff) | (exp << 52))
        };
        if f.is_finite() {
            dbls.push(f);
        }
    }
    for d in &dbls {
        let extreme = d.abs() > 1e60 || (d.abs() < 1e-60 && *d != 0.0);
        if d.is_finite() && extreme && !thorough {
            // quick tier: one spelling of the extreme magnitudes (300-digit comparisons are slow in TLC)
            if rng.chance(1, 3) {
                lits.push(gen::dbl_lit(*d));
            }
        } else if d.is_finite() {
            lits.push(gen::dbl_lit(*d));
            lits.push(format!("{:?}", d).replace("e", "e").to_string());
            if d.abs() < 1e25 && d.abs() > 1e-10 || *d == 0.0 {
                let t = format!("{}", d);
                lits.push(if t.contains('.') { t } else { format!("{}.0", t) });
            }
        }
    }
    for t in &lits {
        let v = s(t);
        let o = prog_apply(t, &[]);
        e.rec("lit", "lit", &v, &Value::Null, t, o);
    }
    // conversions on boundary arguments
    let mut args: Vec<Value> = vec![];
    for i in &ints { args.push(Value::Int(*i)); }
    for u in &uints { args.push(Value::UInt(*u)); }
    let mut conv_dbls = dbls.clone();
    conv_dbls.extend_from_slice(&[f64::NAN, f64::INFINITY, f64::NEG_INFINITY, -0.0, -0.5, -0.999, -1.0, 0.999, 9223372036854775807.0, 9223372036854775808.0, 9223372036854777856.0,
                                  -9223372036854775808.0, -9223372036854777856.0, 18446744073709551615.0, 18446744073709551616.0, 18446744073709555712.0, 4.9e-324, 1e19, 1.8446744073709552e19]);
    for d in &conv_dbls { args.push(Value::Float(*d)); }
    for t in ["0", "-0", "+5", "5", "-5", " 5", "5 ", "0x10", "1e3", "1.0", "9223372036854775807", "9223372036854775808", "-9223372036854775808", "-9223372036854775809", "18446744073709551615",
              "18446744073709551616", "-1", "", "abc", "1_0", "١", "٣", "007", "1.5", "-1.5", ".5", "1e400", "-1e400", "inf", "NaN", "nan", "infinity", "1e-400", "0.1", "123456789012345678901234567890",
              "1.7976931348623157e308", "2.5e-324", "9007199254740993"] {
        args.push(s(t));
    }
    args.extend_from_slice(&[Value::Null, Value::Bool(true), Value::Bytes(Arc::new(vec![0xff])), Value::List(Arc::new(vec![]))]);
    for a in &args {
        let vars = vec![("a".to_string(), a.clone())];
        for (f, op) in [("int", "toint"), ("uint", "touint"), ("double", "todbl")] {
            if let (Value::String(_), "todbl") = (a, op) {
                let o = prog_apply("double(a)", &vars);
                e.rec("strdbl", "var", a, &Value::Null, "double(a)", o);
                continue;
            }
            let src = format!("{}(a)", f);
            let o = prog_apply(&src, &vars);
            e.rec(op, "var", a, &Value::Null, &src, o);
        }
        match a {
            Value::Int(_) => { let o = prog_apply("int(string(a)) == a", &vars); e.rec("intrt", "var", a, &Value::Null, "int(string(a)) == a", o);
                               let o = prog_apply("string(a)", &vars); e.rec("tostr", "var", a, &Value::Null, "string(a)", o); }
            Value::UInt(_) => { let o = prog_apply("uint(string(a)) == a", &vars); e.rec("uintrt", "var", a, &Value::Null, "uint(string(a)) == a", o);
                                let o = prog_apply("string(a)", &vars); e.rec("tostr", "var", a, &Value::Null, "string(a)", o); }
            Value::Float(f) if !thorough && f.is_finite() && (f.abs() > 1e60 || (f.abs() < 1e-60 && *f != 0.0)) && !rng.chance(1, 6) => {}
            Value::Float(_) => { let o = prog_apply("double(string(a)) == a", &vars); e.rec("dblrt", "var", a, &Value::Null, "double(string(a)) == a", o);
                                 let o = prog_apply("string(a)", &vars); e.rec("dblstr", "var", a, &Value::Null, "string(a)", o); }
            Value::String(_) => { let o = prog_apply("string(bytes(a)) == a", &vars); e.rec("strrt", "var", a, &Value::Null, "string(bytes(a)) == a", o); }
            _ => {}
        }
    }
    for t in gen::STR_POOL {
        let a = s(t);
        let o = prog_apply("string(bytes(a)) == a", &[("a".to_string(), a.clone())]);
        e.rec("strrt", "var", &a, &Value::Null, "string(bytes(a)) == a", o);
    }
    e.id
}

/// C12: string and bytes literals denote exactly the characters written.
pub fn drive_c12(seed: u64, thorough: bool, out: &mut dyn Write) -> usize {
    let mut e = Emit { out, id: 0 };
    let mut rng = Rng::new(seed);
    let sv = |x: &str| Value::String(Arc::new(x.to_string()));
    let styles: Vec<(&str, &str)> = vec![("'", "'"), ("\"", "\""), ("'''", "'''"), ("\"\"\"", "\"\"\"")];
    let mut bodies: Vec<String> = vec![];
    for v in 0..256u32 {
        bodies.push(format!("\\x{:02x}", v));
        bodies.push(format!("\\X{:02X}", v));
        bodies.push(format!("\\{:03o}", v));
    }
    for v in 256..512u32 {
        if thorough || v % 8 == 0 {
            bodies.push(format!("\\{:03o}", v)); // \400 .. \777: not escapes
        }
    }
    let mut us: Vec<u32> = (0..0x10000u32).filter(|v| thorough || v % 61 == 0 || *v < 0x100 || (*v >= 0xd7f0 && *v <= 0xe010) || *v >= 0xfff0).collect();
    us.extend_from_slice(&[0x7f, 0x80, 0x7ff, 0x800, 0xffff]);
    for v in &us {
        bodies.push(format!("\\u{:04x}", v));
    }
    let mut big: Vec<u32> = vec![0, 0x41, 0xffff, 0x10000, 0x10001, 0x1f431, 0x1ffff, 0x20000, 0xfffff, 0x100000, 0x10fffe, 0x10ffff, 0x110000, 0x110001, 0xd800, 0xdbff, 0xdc00, 0xdfff,
                                 0xd7ff, 0xe000, 0x7fffffff, 0x80000000, 0xffffffff, 0x00ffffff, 0x01000000];
    for _ in 0..(if thorough { 3000 } else { 150 }) {
        big.push((rng.next_u64() % 0x120000) as u32);
    }
    for v in &big {
        bodies.push(format!("\\U{:08x}", v));
    }
    for c in ["a", "b", "f", "n", "r", "t", "v", "\\", "?", "\"", "'", "`"] {
        bodies.push(format!("\\{}", c));
    }
    for bad in ["\\q", "\\8", "\\9", "\\x1", "\\xg0", "\\u12", "\\u123g", "\\U0001f43", "\\1", "\\12", "\\128", "\\", "\\ ", "\\e", "\\A", "\\N", "\\x", "\\u", "\\U", "\\0", "\\00"] {
        bodies.push(bad.to_string());
    }
    for (i, b) in bodies.iter().enumerate() {
        for (k, (open, close)) in styles.iter().enumerate() {
            // quick tier: \u sweep in one style per value (rotating); everything else in every style
            if !thorough && b.starts_with("\\u") && b.len() == 6 && (i + k) % 4 != 0 {
                continue;
            }
            for prefix in ["", "b", "r", "br", "B", "R", "bR"] {
                if !thorough && (prefix == "B" || prefix == "R" || prefix == "bR") && (i % 7 != 0) {
                    continue;
                }
                // embed with neighbours so that slicing mistakes show
                for (pre, post) in [("", ""), ("é", "z")] {
                    if pre == "é" && !thorough && i % 5 != 0 {
                        continue;
                    }
                    let src = format!("{}{}{}{}{}{}", prefix, open, pre, b, post, close);
                    let o = prog_apply(&src, &[]);
                    e.rec("strlit", "lit", &sv(&src), &Value::Null, &src, o);
                }
            }
        }
    }
    // verbatim line breaks (CR, LF, CRLF, LFCR, runs of them) in every style: kept as written inside triple quotes,
    // an error in one-line literals
    for (open, close) in styles.iter() {
        for prefix in ["", "r", "b", "br", "R", "B"] {
            for body in ["a\r\nb", "\r\n", "\n\r", "a\rb", "a\nb", "\r", "\n", "\r\n\r\n", "\r\r\n", "x\r\n", "\r\nx", "é\r\n日", " \t\r\n "] {
                let src = format!("{}{}{}{}", prefix, open, body, close);
                let o = prog_apply(&src, &[]);
                e.rec("strlit", "lit", &sv(&src), &Value::Null, &src, o);
            }
        }
    }
    // random strings / byte sequences in every applicable style with random escape / verbatim choices
    let alphabet: Vec<char> = vec!['a', 'Z', '0', ' ', '\'', '"', '\\', '\n', '\r', '\t', 'é', 'ß', '日', '🐱', '\u{0}', '\u{7f}', '\u{ffff}', '`', '?', '\u{80}', '\u{ff}'];
    for _ in 0..(if thorough { 30000 } else { 3000 }) {
        let n = rng.below(6);
        let (open, close) = styles[rng.below(4)];
        let raw = rng.chance(1, 5);
        let bytes = rng.chance(1, 3);
        let mut body = String::new();
        for _ in 0..n {
            let c = *rng.pick(&alphabet);
            let choice = if raw { 0 } else { rng.below(6) };
            let v = c as u32;
            match choice {
                1 if v < 256 => body.push_str(&format!("\\x{:02x}", v)),
                2 if v < 256 => body.push_str(&format!("\\{:03o}", v)),
                3 if v < 0x10000 && !bytes => body.push_str(&format!("\\u{:04x}", v)),
                4 if !bytes => body.push_str(&format!("\\U{:08x}", v)),
                5 => match c { '\n' => body.push_str("\\n"), '\r' => body.push_str("\\r"), '\t' => body.push_str("\\t"), '\\' => body.push_str("\\\\"), '\'' => body.push_str("\\'"),
                               '"' => body.push_str("\\\""), '`' => body.push_str("\\`"), '?' => body.push_str("\\?"), _ => body.push(c) },
                _ => body.push(c),
            }
        }
        let src = format!("{}{}{}{}{}", if bytes { "b" } else { "" }, if raw { "r" } else { "" }, open, body, close);
        let o = prog_apply(&src, &[]);
        e.rec("strlit", "lit", &sv(&src), &Value::Null, &src, o);
    }
    e.id
}

/// Re-run one recorded operator application against the current tree (replay).
pub fn replay_op(j: &J) -> Option<J> {
    let op = j["op"].as_str()?;
    let form = j["form"].as_str().unwrap_or("var");
    let a = enc::unvalue(&j["a"])?;
    let b = enc::unvalue(&j["b"]).unwrap_or(Value::Null);
    let src = j["src"].as_str().unwrap_or("");
    let out = if form == "host" {
        host_apply(op, &a, &b)
    } else if form == "lit" {
        prog_apply(src, &[])
    } else {
        prog_apply(src, &[("a".to_string(), a.clone()), ("b".to_string(), b.clone()), ("m".to_string(), a.clone()), ("k".to_string(), b.clone()),
                          ("l".to_string(), a.clone()), ("i".to_string(), b.clone()), ("x".to_string(), a.clone())])
    };
    let mut r = j.clone();
    r["out"] = out;
    Some(r)
}
