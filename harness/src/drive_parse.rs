//! C01 / C04: the parser.  Source texts are exchanged as code-point arrays.
use crate::enc;
use crate::gen::{self, Gen, Knobs, T};
use crate::rng::Rng;
use crate::run;
use serde_json::{json, Value as J};
use std::io::Write;
use std::panic::{catch_unwind, AssertUnwindSafe};

pub fn text_of(j: &J) -> String {
    j.as_array().map(|a| a.iter().filter_map(|c| c.as_u64().and_then(|c| char::from_u32(c as u32))).collect()).unwrap_or_default()
}

/// Parse with the public parser AND compile with Program::compile; both must agree on accept / reject.
pub fn parse_outcome(src: &str) -> J {
    let owned = src.to_string();
    // parsing, compiling AND rendering the errors, under a panic guard and the monitor
    run::arm("compile", run::WATCHDOG_SECS, src);
    let r = Some({
        catch_unwind(AssertUnwindSafe(|| {
            let a = cel_parser::Parser::new().parse(&owned);
            let p = cel_interpreter::Program::compile(&owned);
            match (a, p) {
                (Ok(ast), Ok(_)) => {
                    let mut ids = vec![];
                    enc::ast_ids(&ast, &mut ids);
                    json!({"k": "ok", "ast": enc::ast(&ast), "ids": ids})
                }
                (Err(e), Err(_)) => {
                    let errs: Vec<J> = e.errors.iter().map(|pe| {
                        let text = format!("{}", pe);
                        if text.chars().count() <= 1200 {
                            json!({"line": pe.pos.0, "col": pe.pos.1, "msglen": pe.msg.chars().count(), "textlen": text.chars().count(), "msgcp": enc::cps(&pe.msg), "textcp": enc::cps(&text)})
                        } else {
                            json!({"line": pe.pos.0, "col": pe.pos.1, "msglen": pe.msg.chars().count(), "textlen": text.chars().count()})
                        }
                    }).collect();
                    json!({"k": "err", "errors": errs, "displaylen": format!("{}", e).chars().count()})
                }
                _ => json!({"k": "disagree"}),
            }
        }))
    });
    run::disarm();
    match r {
        None => json!({"k": "timeout", "secs": run::WATCHDOG_SECS}),
        Some(Err(_)) => json!({"k": "panic", "msg": run::last_panic()}),
        Some(Ok(j)) => j,
    }
}

fn rec(out: &mut dyn Write, id: usize, kind: &str, src: &str, extra: J) {
    if run::too_many_timeouts() {
        return;
    }
    let mut o = parse_outcome(src);
    if extra.get("noast").is_some() {
        if let Some(m) = o.as_object_mut() {
            m.remove("ast");
        }
    }
    let mut j = json!({"id": id, "kind": kind, "text": enc::cps(src), "src": src, "out": o});
    if let (Some(o), Some(e)) = (j.as_object_mut(), extra.as_object()) {
        for (k, v) in e {
            o.insert(k.clone(), v.clone());
        }
    }
    writeln!(out, "{}", j).unwrap();
}

/// spec -> implementation: texts rendered by the specification (CelRender) for trees it built
pub fn parse_vectors(inp: &str, out: &mut dyn Write) -> usize {
    let mut n = 0;
    for line in std::fs::read_to_string(inp).expect("read").lines() {
        if line.trim().is_empty() {
            continue;
        }
        let v: J = serde_json::from_str(line).expect("json");
        n += 1;
        let full = text_of(&v["full"]);
        let min = text_of(&v["min"]);
        writeln!(out, "{}", json!({"id": n, "kind": "vec", "syms": v["syms"], "full": {"text": v["full"], "src": full, "out": parse_outcome(&full)},
                                   "min": {"text": v["min"], "src": min, "out": parse_outcome(&min)}})).unwrap();
    }
    n
}

/// spec -> implementation (C01): token strings enumerated by the model
pub fn sentence_vectors(inp: &str, out: &mut dyn Write) -> usize {
    let mut n = 0;
    for line in std::fs::read_to_string(inp).expect("read").lines() {
        if line.trim().is_empty() {
            continue;
        }
        let v: J = serde_json::from_str(line).expect("json");
        n += 1;
        let src = text_of(&v["text"]);
        rec(out, n, "tokens", &src, json!({"noast": true}));
    }
    n
}

fn noise(rng: &mut Rng) -> &'static str {
    *rng.pick(&[" ", "  ", "\n", "\t", " // c\n", "\r\n", ""])
}

/// re-render a source text with redundant parentheses around the whole and extra hidden tokens between tokens
fn decorate(rng: &mut Rng, src: &str) -> String {
    let mut out = String::new();
    let cs: Vec<char> = src.chars().collect();
    let mut i = 0;
    let mut in_str: Option<char> = None;
    while i < cs.len() {
        let c = cs[i];
        match in_str {
            Some(q) => {
                out.push(c);
                if c == '\\' && i + 1 < cs.len() {
                    out.push(cs[i + 1]);
                    i += 1;
                } else if c == q {
                    in_str = None;
                }
            }
            None => {
                if c == '\'' || c == '"' {
                    in_str = Some(c);
                    out.push(c);
                } else if c == ' ' {
                    out.push_str(noise(rng));
                    out.push(' ');
                } else if (c == '(' || c == ',' || c == '[') && rng.chance(1, 4) {
                    out.push(c);
                    out.push_str(noise(rng));
                } else {
                    out.push(c);
                }
            }
        }
        i += 1;
    }
    match rng.below(4) {
        0 => format!("({})", out),
        1 => format!("(({}))", out),
        2 => format!("{}{}{}", noise(rng), out, noise(rng)),
        _ => out,
    }
}

fn gen_valid(rng: &mut Rng, depth: usize) -> String {
    let ctx = gen::gen_context(rng, 2);
    let mut k = Knobs::default();
    k.wrap_pct = 5;
    k.err_pct = 5;
    let mut g = Gen::new(rng, k, &ctx);
    let ty = match g.rng.below(5) { 0 => T::Bool, 1 => T::Int, 2 => T::Str, 3 => T::List(Box::new(T::Int)), _ => T::Bool };
    let d = 1 + g.rng.below(depth);
    g.expr(&ty, d).render()
}

/// C04 implementation -> specification: && / || chains up to 64, prefix runs up to 6, random trees (depth <= 7)
/// with redundant parentheses, whitespace and comments.
pub fn drive_c04(seed: u64, thorough: bool, out: &mut dyn Write) -> usize {
    let mut rng = Rng::new(seed);
    let mut id = 0;
    for op in ["&&", "||"] {
        for n in 2..=64usize {
            let src = (0..n).map(|i| format!("a{}", i)).collect::<Vec<_>>().join(&format!(" {} ", op));
            id += 1;
            rec(out, id, "chain", &src, json!({}));
            // literals in between, and a parenthesised sub-chain
            let src2 = (0..n).map(|i| if i % 3 == 1 { format!("{}", i % 2 == 0) } else if i == n / 2 { format!("(p {} q)", op) } else { format!("a{}", i) }).collect::<Vec<_>>().join(&format!(" {} ", op));
            id += 1;
            rec(out, id, "chain", &src2, json!({}));
        }
    }
    // conditional chains: through the else branch (right-nested), through the then branch, through the condition (parenthesised), mixed
    for n in 1..=16usize {
        let mut srcs = vec![];
        srcs.push((0..n).map(|i| format!("c{} ? t{} : ", i, i)).collect::<String>() + "e");
        srcs.push((0..n).map(|i| format!("c{} ? ", i)).collect::<String>() + "t" + &(0..n).map(|i| format!(" : e{}", i)).collect::<String>());
        srcs.push("(".repeat(n) + "c" + &(0..n).map(|i| format!(" ? t{} : e{})", i, i)).collect::<String>());
        srcs.push((0..n).map(|i| format!("c{} || d{} ? t{} + 1 : ", i, i, i)).collect::<String>() + "e && f");
        srcs.push((0..n).map(|i| if i % 2 == 0 { format!("c{} ? t{} : ", i, i) } else { format!("c{} ? (p{} ? q{} : r{}) : ", i, i, i, i) }).collect::<String>() + "e");
        for src in srcs {
            id += 1;
            rec(out, id, "chain", &src, json!({}));
        }
    }
    // left-associative chains of every binary operator, alone and mixed within one precedence level
    for ops in [vec!["+"], vec!["-"], vec!["*"], vec!["/"], vec!["%"], vec!["=="], vec!["<"], vec!["in"], vec!["+", "-"], vec!["*", "/", "%"], vec!["==", "!=", "<", "<=", ">", ">=", "in"]] {
        for n in 2..=10usize {
            let mut src = "a0".to_string();
            for i in 1..n {
                src += &format!(" {} a{}", ops[(i - 1) % ops.len()], i);
            }
            id += 1;
            rec(out, id, "chain", &src, json!({}));
        }
    }
    // postfix chains: selection, indexing, calls
    for n in 1..=10usize {
        for src in [format!("a{}", ".b".repeat(n)), format!("a{}", "[0]".repeat(n)), format!("a{}", ".f(x)".repeat(n)), format!("a{}", ".b[i].g()".repeat(n)), format!("f{}", "(x)".repeat(n))] {
            id += 1;
            rec(out, id, "chain", &src, json!({}));
        }
    }
    for op in ["!", "-"] {
        for n in 1..=6usize {
            for operand in ["a", "1", "(a + b)", "a.b", "f(x)", "a[0]", "1.5", "true", "[1][0]"] {
                let src = format!("{}{}", op.repeat(n), operand);
                id += 1;
                rec(out, id, "prefix", &src, json!({}));
                let src = format!("x {} {}{}", if op == "!" { "&&" } else { "+" }, op.repeat(n), operand);
                id += 1;
                rec(out, id, "prefix", &src, json!({}));
            }
        }
    }
    for src in ["a ? b : c ? d : e", "a ? b ? c : d : e", "(a ? b : c) ? d : e", "a || b ? c : d", "a ? b : c || d", "a == b == c", "a < b != c", "a in b in c", "a - b - c", "a - (b - c)",
                "a / b * c", "a * b / c % d", "a + b * c - d", "(a + b) * c", "-a * b", "-(a * b)", "!a && b", "!(a && b)", "a.b.c", "a.b(c).d", "a[b][c]", "a.b[c].d(e)", "-a.b", "(-a).b", "!a.b()",
                "a.all(x, x > 0)", "a.b.all(x, x)", "a.all(x, x).b", "a.map(x, x.map(y, y))", "a.map(x, f, x)", "has(a.b)", "has(a.b.c)", "has(a.b).c", "a.exists_one(x, x)", "a.existsOne(x, x)",
                "a.filter(x, x) + b", "[a, b][0]", "{a: b}.c", "{a: b}[a]", "f(a)(b)", "a.f(b)(c)", "x.all(y, y.all(x, x))", "1 + 2u", "- 1", "-1", "- -1", "-(-1)", "- - 1", "a ? b : c.d",
                "[1, 2, 3,]", "{1: 2,}", "f(1, 2)", "a && b || c && d", "a || b && c || d", "(a || b) && (c || d)", "a.all(x, y).all(z, w)", "T{a: 1}", "a.T{b: c}", ".a", ".f(x)", "a.?b", "a[?b]",
                "[?a]", "{?a: b}", "a.`b`", "1 // comment", "1 + // c\n 2", "a\n+\nb", "\"s\" + 's' + '''t''' + r'u'", "b'x' == b\"x\"", "a ? b : c ? d : e ? f : g", "!-a", "-!a", "a.-b"] {
        id += 1;
        rec(out, id, "fixed", src, json!({}));
    }
    let n = if thorough { 20000 } else { 1500 };
    for _ in 0..n {
        let src = gen_valid(&mut rng, 7);
        id += 1;
        rec(out, id, "random", &src, json!({}));
        let d = decorate(&mut rng, &src);
        id += 1;
        rec(out, id, "decorated", &d, json!({}));
    }
    id
}

const TOKENS: &[&str] = &["a", "b", "f", "x", "1", "2u", "1.5", "0x1F", "'s'", "\"t\"", "b'x'", "r'\\'", "'''m'''", "true", "false", "null", "in", "(", ")", "[", "]", "{", "}", ".", ",", "?", ":",
    "+", "-", "*", "/", "%", "!", "==", "!=", "<", "<=", ">", ">=", "&&", "||", "has", "all", "map", "size", "=", "&", "|", "'", "\"", "`a`", "// c\n", "\n", " ", "#", "$", "é", "\\", "0x", "1e", "1.", "''''"];

fn mutate(rng: &mut Rng, src: &str) -> String {
    // token-level insert / delete / replace / truncate on whitespace-separated pieces and characters
    let cs: Vec<char> = src.chars().collect();
    if cs.is_empty() {
        return rng.pick(TOKENS).to_string();
    }
    let i = rng.below(cs.len());
    match rng.below(5) {
        0 => cs[..i].iter().collect(),
        1 => {
            let mut v = cs.clone();
            v.remove(i);
            v.iter().collect()
        }
        2 => {
            let mut s: String = cs[..i].iter().collect();
            { let t: &str = *rng.pick(TOKENS); s.push_str(t); }
            s.extend(cs[i..].iter());
            s
        }
        3 => {
            let mut s: String = cs[..i].iter().collect();
            { let t: &str = *rng.pick(TOKENS); s.push_str(t); }
            s.extend(cs[(i + 1).min(cs.len())..].iter());
            s
        }
        _ => {
            let j = (i + 1 + rng.below(4)).min(cs.len());
            let mut s: String = cs[..i].iter().collect();
            s.extend(cs[j..].iter());
            s
        }
    }
}

/// C01: random characters, random token sequences, valid expressions and single-token mutations of them.
pub fn drive_c01(seed: u64, thorough: bool, out: &mut dyn Write) -> usize {
    let mut rng = Rng::new(seed);
    let mut id = 0;
    let n = if thorough { 40000 } else { 3000 };
    let chars: Vec<char> = "ab fx_019.,()[]{}?:+-*/%!=<>&|'\"\\`\n\t #ué🐱\u{0}\r0xXeEuUrRbB".chars().collect();
    for i in 0..n {
        let src = match i % 4 {
            0 => {
                let len = if rng.chance(1, 50) { 1000 + rng.below(3000) } else { rng.below(24) };
                (0..len).map(|_| *rng.pick(&chars)).collect::<String>()
            }
            1 => {
                let len = if rng.chance(1, 50) { 200 + rng.below(600) } else { 1 + rng.below(8) };
                (0..len).map(|_| rng.pick(TOKENS).to_string()).collect::<Vec<_>>().join(if rng.chance(1, 2) { " " } else { "" })
            }
            2 => gen_valid(&mut rng, 6),
            _ => {
                let v = gen_valid(&mut rng, 5);
                mutate(&mut rng, &v)
            }
        };
        id += 1;
        rec(out, id, ["chars", "tokens", "valid", "mutant"][i % 4], &src, json!({"noast": true}));
    }
    // deep nesting (bracket / operator depth up to 32) and long inputs up to 4 KiB
    for d in [8usize, 16, 24, 32] {
        for (o, c) in [("(", ")"), ("[", "]"), ("f(", ")"), ("{1:", "}"), ("-(", ")"), ("!(", ")")] {
            let src = format!("{}1{}", o.repeat(d), c.repeat(d));
            id += 1;
            rec(out, id, "deep", &src, json!({"noast": true}));
            let src = format!("{}1{}", o.repeat(d), c.repeat(d - 1));
            id += 1;
            rec(out, id, "deep", &src, json!({"noast": true}));
        }
    }
    // macro-argument errors (positions come from a different code path), in multi-line sources
    for t in ["has(@m)", "has(@@m)", "x.all(@1, true)", "x.map(@y.z, 1)", "x.filter(@\"s\", true)", "x.exists(@[a], a)", "x.exists_one(@f(y), y)", "has(@a)", "1 +@has(@@@m)",
              "[1,@2].map(@@x.y,@x)", "a@&&@has(@b@)", "x.all(@@@@1, y) || x.all(@2, y)", "has(é,@m)", "'é' + has(@m)"] {
        for nl in ["\n", "\n\n", "\r\n", " \n ", ""] {
            let src = t.replace('@', nl);
            id += 1;
            rec(out, id, "macroerr", &src, json!({"noast": true}));
        }
    }
    // ill-formed macros nested in the argument slots an enclosing macro inspects
    let inner = ["has(m)", "x.all(1, y)", "y.filter(1, true)", "z.map(a.b, c)", "has(f(m))", "w.exists_one(2u, true)", "has(1)"];
    for i1 in inner {
        for outer in ["has(@)", "x.all(@, true)", "[1].map(@, 1)", "x.exists(@, true)", "x.filter(@, y)", "x.map(@, true, 1)", "x.exists_one(@, z)", "has(@.f)", "x.all(y, @)", "has(has(@))",
                      "x.map(@, @)", "[@].all(@, 1)", "x.all(@,\n true)"] {
            let src = outer.replace('@', i1);
            id += 1;
            rec(out, id, "macroerr", &src, json!({"noast": true}));
        }
    }
    let long = (0..680).map(|i| format!("a{}", i % 10)).collect::<Vec<_>>().join(" + ");
    id += 1;
    rec(out, id, "long", &long, json!({"noast": true}));
    id += 1;
    rec(out, id, "long", &format!("{} +", long), json!({"noast": true}));
    for src in ["", " ", "\n", "//", "// only a comment", "1 +", "(", ")", "!", "a b", "1 2", "a.", ".", "'abc", "\"abc", "'''abc", "'a\nb'", "a ? b", "a ? b :", "a[", "a[]", "f(,)", "[,]", "{,}", "{a}",
                "{a:}", "a.b.", "a..b", "1..2", "a &&", "&& a", "a & b", "a | b", "a = b", "a === b", "a <> b", "1e", "0x", "1.e", "\\", "#", "é", "a é", "a\u{0}b", "'\\q'", "'\\u12'", "'\\ud800'",
                "9223372036854775808", "1e999", "18446744073709551616u", "has(a)", "has(a.b, c)", "a.all(1, x)", "a.map(x.y, z)", "a.all(x)", "T{a}", "T{a: 1, b}", "T{a: 1,, b: 2}", "a ? : b", "? a : b",
                "a ?? b", "a ? b ? c", "((a)", "(a))", "[a", "a]", "{a: b", "a: b}", "f(a", "f a)", "a.f(", "in", "true false", "null.", "-", "--", "!!", "- -", "1 -", "a in", "in a", "a.in", "x.true"] {
        id += 1;
        rec(out, id, "fixed", src, json!({"noast": true}));
    }
    id
}
