//! C19: reported references vs names actually looked up.
use crate::enc;
use crate::gen;
use crate::gen_untyped::U;
use crate::rng::Rng;
use crate::run;
use crate::zoo;
use cel_interpreter::{Context, Program, Value};
use serde_json::{json, Value as J};
use std::io::Write;
use std::panic::{catch_unwind, AssertUnwindSafe};

/// identifier tokens of a source text (outside string literals)
pub fn ident_tokens(src: &str) -> Vec<String> {
    let cs: Vec<char> = src.chars().collect();
    let mut out: Vec<String> = vec![];
    let mut i = 0;
    while i < cs.len() {
        let c = cs[i];
        if c == '\'' || c == '"' {
            let q = c;
            i += 1;
            while i < cs.len() && cs[i] != q {
                if cs[i] == '\\' {
                    i += 1;
                }
                i += 1;
            }
            i += 1;
        } else if c.is_ascii_alphabetic() || c == '_' {
            let st = i;
            while i < cs.len() && (cs[i].is_ascii_alphanumeric() || cs[i] == '_') {
                i += 1;
            }
            let t: String = cs[st..i].iter().collect();
            if !out.contains(&t) {
                out.push(t);
            }
        } else if c.is_ascii_digit() {
            while i < cs.len() && (cs[i].is_ascii_alphanumeric() || cs[i] == '.') {
                i += 1;
            }
        } else {
            i += 1;
        }
    }
    out
}

fn refs_json(p: &Program) -> J {
    let r = p.references();
    let mut vars: Vec<String> = r.variables().iter().map(|s| s.to_string()).collect();
    let mut fns: Vec<String> = r.functions().iter().map(|s| s.to_string()).collect();
    vars.sort();
    fns.sort();
    json!({"vars": vars.iter().map(|n| json!({"name": n, "cp": enc::cps(n)})).collect::<Vec<_>>(),
           "fns": fns.iter().map(|n| json!({"name": n, "cp": enc::cps(n)})).collect::<Vec<_>>()})
}

pub fn drive(seed: u64, n: usize, depth: usize, out: &mut dyn Write) -> usize {
    let mut rng = Rng::new(seed);
    let var_pool = ["p", "q", "r", "s", "u", "w", "_a", "__v", "_", "a_b", "P", "q1"];
    let fn_pool = ["fa", "fb", "size", "int", "t", "h2", "fc", "_f", "f_1"];
    let extra_fns = ["fa", "fb", "fc"];
    let mut id = 0;
    let mut emitted = 0;
    while emitted < n {
        id += 1;
        let mut r = rng.fork();
        let src = {
            let mut u = U { rng: &mut r, vars: var_pool.iter().map(|s| s.to_string()).collect(), fns: fn_pool.iter().map(|s| s.to_string()).collect(),
                            macro_vars: vec!["x".into(), "y".into(), "p".into()], used: vec![], tag: 0, wrap_pct: 5, structs: true };
            let d = 1 + u.rng.below(depth);
            u.expr(d)
        };
        let (prog, ast) = match run::compile(&src) {
            run::Compiled::Ok(p, a) => (p, a),
            _ => continue,
        };
        let refs = refs_json(&prog);
        let refs2 = refs_json(&prog);
        let rv: Vec<String> = refs["vars"].as_array().unwrap().iter().map(|x| x["name"].as_str().unwrap().to_string()).collect();
        let rf: Vec<String> = refs["fns"].as_array().unwrap().iter().map(|x| x["name"].as_str().unwrap().to_string()).collect();
        let mut runs = vec![];
        for k in 0..4 {
            // k == 0: the context defines exactly the reported names; otherwise a random subset of the pools
            let mut vars: Vec<(String, Value)> = vec![];
            let mut fns: Vec<String> = vec![];
            let names: Vec<String> = if k == 0 { rv.clone() } else { var_pool.iter().chain(["x", "y"].iter()).filter(|_| r.chance(1, 2)).map(|s| s.to_string()).collect() };
            for nm in names {
                let t = match r.below(4) { 0 => gen::T::Int, 1 => gen::T::List(Box::new(gen::T::Int)), 2 => gen::T::Map(Box::new(gen::T::Str), Box::new(gen::T::Int)), _ => gen::T::Bool };
                vars.push((nm, gen::gen_value(&mut r, &t, 3)));
            }
            for f in extra_fns.iter() {
                if (k == 0 && rf.iter().any(|x| x == f)) || (k != 0 && r.chance(1, 2)) {
                    fns.push(f.to_string());
                }
            }
            let log = zoo::new_log();
            let res = catch_unwind(AssertUnwindSafe(|| {
                let mut ctx = Context::default();
                zoo::register(&mut ctx, &log);
                for f in &fns {
                    zoo::register_variadic(&mut ctx, &log, f);
                }
                for (nm, v) in &vars {
                    ctx.add_variable_from_value(nm.clone(), v.clone());
                }
                prog.execute(&ctx)
            }));
            let l = log.lock().map(|g| g.clone()).unwrap_or_default();
            runs.push(json!({"vars": run::vars_json(&vars), "fns": fns, "log": l, "out": run::outcome(res), "exact": k == 0}));
        }
        writeln!(out, "{}", json!({"id": id, "src": src, "ast": ast, "idents": ident_tokens(&src), "refs": refs, "refs2": refs2, "runs": runs})).unwrap();
        emitted += 1;
    }
    emitted
}
