//! C05: purity, repeatability, sharing across threads.
use crate::enc;
use crate::gen::{self, Gen, Knobs, T};
use crate::rng::Rng;
use crate::run;
use crate::zoo;
use cel_interpreter::{Context, Program, Value};
use serde_json::{json, Value as J};
use std::io::Write;
use std::panic::{catch_unwind, AssertUnwindSafe};

fn share_knobs() -> Knobs {
    let mut k = Knobs::default();
    k.wrap_pct = 5;
    k.err_pct = 4;
    k.max_depth = 4;
    k
}

/// programs biased to list/string concatenation and macros over context variables
fn gen_program(rng: &mut Rng, ctx: &gen::Ctx, logging: bool) -> (String, Program, J) {
    loop {
        let mut k = share_knobs();
        if !logging {
            k.wrap_pct = 0;
            k.err_pct = 0;
            k.host_calls = false;
        }
        let src = {
            let mut g = Gen::new(rng, k, ctx);
            let d = 1 + g.rng.below(4);
            match g.rng.below(11) {
                10 => ["size(vs1)", "size(vl1) + size(vs2)", "max(vl1 + [1]) + 1", "string(vi1) + vs1", "vs1.size()", "vl2.map(x, size(x))", "int(vs1.size())", "min([size(vs1), size(vs2)])",
                       "vs1.startsWith(string(vi1))", "[vs1, vs2].map(s, s.size())"][g.rng.below(10)].to_string(),
                8 => ["vl1.map(vl1, vl1 * 2)", "vl1.filter(vl1, vl1 > 1)", "vl2.all(vl2, vl2 != '')", "vl1.map(x, x * 2)", "[1, 2].map(x, x + 1)", "vl3.map(vl3, vl3.map(vl3, vl3))",
                      "vm1.map(vm1, vm1)", "vl1.exists(vl1, vl1 == 1)", "[vl1].map(vl1, vl1)", "vl1.map(vi1, vi1)", "has(vm1.a) ? vm1.a : 0", "vl2.map(vs1, vs1 + vs1)"][g.rng.below(12)].to_string(),
                9 => {
                    g.knobs.clash_names = true;
                    let t = match g.rng.below(3) { 0 => T::Bool, 1 => T::List(Box::new(T::Int)), _ => T::List(Box::new(T::Str)) };
                    g.expr(&t, d).render()
                }
                0 => "vl1 + vl1".to_string(),
                1 => "(vl1 + [1]) + vl1".to_string(),
                2 => "vs1 + vs2 + vs1".to_string(),
                3 => "vl2.map(x, x + vs1)".to_string(),
                4 => "vl3.map(x, x + vl1).filter(y, size(y) > 1)".to_string(),
                5 => format!("vs1.matches('^{}') || vs2.matches('{}$')", ["a", "b", "k", "x", ".", "[a-z]"][g.rng.below(6)], ["a", "b", "1", "c", ".", "[0-9]"][g.rng.below(6)]),
                6 => g.expr(&T::List(Box::new(T::Int)), d).render(),
                _ => {
                    let t = match g.rng.below(4) { 0 => T::Bool, 1 => T::Int, 2 => T::Str, _ => T::List(Box::new(T::Str)) };
                    g.expr(&t, d).render()
                }
            }
        };
        if let run::Compiled::Ok(p, ast) = run::compile(&src) {
            return (src, p, ast);
        }
    }
}

/// Fresh values of their own types for a few context variables (what an inner scope shadows them with).
fn shadow_vars(rng: &mut Rng, gctx: &gen::Ctx) -> Vec<(String, Value)> {
    let mut out = vec![];
    for (n, t, _) in gctx.vars.iter() {
        if rng.chance(1, 3) {
            out.push((n.clone(), gen::gen_value(rng, t, 4)));
        }
    }
    out
}

fn scope_with<'a>(root: &'a Context<'a>, shadow: &[(String, Value)]) -> Context<'a> {
    let mut inner = root.new_inner_scope();
    for (n, v) in shadow {
        inner.add_variable_from_value(n.clone(), v.clone());
    }
    inner
}

fn effective(vars: &[(String, Value)], shadow: &[(String, Value)]) -> Vec<(String, Value)> {
    vars.iter().map(|(n, v)| match shadow.iter().find(|(m, _)| m == n) { Some((_, w)) => (n.clone(), w.clone()), None => (n.clone(), v.clone()) }).collect()
}

/// Histories: up to 50 executions against ONE context; after each, the context and every value
/// obtained so far are read back and re-encoded.
pub fn histories(seed: u64, count: usize, out: &mut dyn Write) -> usize {
    let mut rng = Rng::new(seed);
    let mut id = 0;
    for _h in 0..count {
        let gctx = gen::gen_context(&mut rng, 4);
        let vars: Vec<(String, Value)> = gctx.vars.iter().map(|(n, _, v)| (n.clone(), v.clone())).collect();
        let log = zoo::new_log();
        let mut ctx = Context::default();
        zoo::register(&mut ctx, &log);
        // every other history registers host functions under built-ins' names: what a call resolves to must not
        // change from one execution to the next
        let overrides: Vec<String> = if _h % 2 == 1 { vec!["size".to_string(), "string".to_string()] } else { vec![] };
        for o in &overrides {
            zoo::register_override(&mut ctx, &log, o);
        }
        for (n, v) in &vars {
            ctx.add_variable_from_value(n.clone(), v.clone());
        }
        let vars_json = run::vars_json(&vars);
        // values held by the host: clones of context variables and earlier results, with their first encoding
        let mut held: Vec<(J, Value)> = vars.iter().map(|(_, v)| (enc::value(v), v.clone())).collect();
        let len = 5 + rng.below(46);
        let mut progs: Vec<(String, Program, J)> = vec![];
        for step in 0..len {
            // every third execution repeats an earlier program (repeatability)
            let (src, prog, ast) = if step % 3 == 2 && !progs.is_empty() {
                let i = rng.below(progs.len());
                let (s, _, a) = &progs[i];
                (s.clone(), Program::compile(s).unwrap(), a.clone())
            } else {
                gen_program(&mut rng, &gctx, true)
            };
            log.lock().unwrap().clear();
            // every fourth execution runs in an inner scope of the context that shadows some variables
            let shadow: Vec<(String, Value)> = if step % 4 == 3 { shadow_vars(&mut rng, &gctx) } else { vec![] };
            let mut shadow_held: Vec<J> = vec![];
            let r = if shadow.is_empty() {
                catch_unwind(AssertUnwindSafe(|| prog.execute(&ctx)))
            } else {
                let inner = scope_with(&ctx, &shadow);
                let r = catch_unwind(AssertUnwindSafe(|| prog.execute(&inner)));
                // the inner scope's own bindings are part of "the context it ran against"
                for (n, v) in &shadow {
                    shadow_held.push(json!([enc::value(v), match inner.get_variable(n.as_str()) { Ok(w) => enc::value(&w), Err(_) => json!({"t": "null"}) }]));
                }
                r
            };
            let eff_json = run::vars_json(&effective(&vars, &shadow));
            let l = log.lock().unwrap().clone();
            let result_val = match &r { Ok(Ok(v)) => Some(v.clone()), _ => None };
            let o = run::outcome(r);
            let after: Vec<J> = vars.iter().map(|(n, _)| json!([n, match ctx.get_variable(n.as_str()) { Ok(v) => enc::value(&v), Err(_) => json!({"t": "null"}) }])).collect();
            let mut held_json: Vec<J> = held.iter().map(|(first, v)| json!([first, enc::value(v)])).collect();
            held_json.extend(shadow_held);
            id += 1;
            writeln!(out, "{}", json!({"ev": "case", "id": id, "src": src, "ast": ast, "vars": eff_json, "vars_before": vars_json, "log": l, "out": o, "vars_after": after, "held": held_json, "overrides": overrides})).unwrap();
            if let Some(v) = result_val {
                if held.len() < 40 {
                    held.push((enc::value(&v), v));
                }
            }
            progs.push((src, prog, ast));
        }
    }
    id
}

/// Schedules: `nthreads` OS threads share one `&[Program]` and one root `&Context`; each executes in
/// inner scopes of its own.  Every concurrent outcome is recorded next to the outcome of the same
/// program executed alone beforehand.
pub fn threads(seed: u64, rounds: usize, nthreads: usize, per_thread: usize, out: &mut dyn Write) -> usize {
    let mut rng = Rng::new(seed);
    let mut id = 0;
    for _r in 0..rounds {
        let gctx = gen::gen_context(&mut rng, 4);
        let vars: Vec<(String, Value)> = gctx.vars.iter().map(|(n, _, v)| (n.clone(), v.clone())).collect();
        let log = zoo::new_log();
        let mut root = Context::default();
        zoo::register(&mut root, &log);
        for (n, v) in &vars {
            root.add_variable_from_value(n.clone(), v.clone());
        }
        let nprogs = 12 + rng.below(12);
        let mut srcs = vec![];
        let mut asts = vec![];
        let mut progs = vec![];
        // every second round is regex-heavy: many distinct patterns, each deciding its literal subject
        // differently, so that any cross-thread mix-up of compiled patterns changes an outcome
        let regex_round = _r % 2 == 1;
        for k in 0..nprogs {
            let (s, p, a) = if regex_round {
                let subj = ["abc", "bcd", "xyz", "k1"][k % 4];
                let pat = ["^a", "^b", "^x", "^k", "c$", "d$", "z$", "1$", "^[a-c]+$", "^[x-z]+$", "b", "y"][k % 12];
                let src = format!("'{}'.matches('{}') ? {} : -{}", subj, pat, k + 1, k + 1);
                match run::compile(&src) { run::Compiled::Ok(p, a) => (src, p, a), _ => unreachable!() }
            } else {
                gen_program(&mut rng, &gctx, false)
            };
            srcs.push(s);
            asts.push(a);
            progs.push(p);
        }
        // the inner scopes the threads execute in: variant 0 binds nothing, the others shadow some root variables
        let variants: Vec<Vec<(String, Value)>> = vec![vec![], shadow_vars(&mut rng, &gctx), shadow_vars(&mut rng, &gctx)];
        let variants_ref = &variants;
        let scope_of = move |root, k: usize| scope_with(root, &variants_ref[k]);
        // alone, first: every program in every variant
        let alone: Vec<Vec<J>> = (0..variants.len()).map(|k| progs.iter().map(|p| run::outcome(catch_unwind(AssertUnwindSafe(|| p.execute(&scope_of(&root, k)))))).collect()).collect();
        let before: Vec<J> = vars.iter().map(|(n, _)| enc::value(&root.get_variable(n.as_str()).unwrap())).collect();
        let seeds: Vec<u64> = (0..nthreads).map(|_| rng.next_u64()).collect();
        let progs_ref = &progs;
        let root_ref = &root;
        let results: Vec<Vec<(usize, usize, J)>> = std::thread::scope(|sc| {
            let hs: Vec<_> = seeds
                .iter()
                .map(|sd| {
                    let sd = *sd;
                    sc.spawn(move || {
                        let mut r = Rng::new(sd);
                        let mut outv = vec![];
                        for _ in 0..per_thread {
                            let i = r.below(progs_ref.len());
                            if r.chance(1, 4) {
                                std::thread::yield_now();
                            }
                            let k = r.below(3);
                            let inner = scope_of(root_ref, k);
                            let o = run::outcome(catch_unwind(AssertUnwindSafe(|| progs_ref[i].execute(&inner))));
                            outv.push((i, k, o));
                        }
                        outv
                    })
                })
                .collect();
            hs.into_iter().map(|h| h.join().unwrap_or_default()).collect()
        });
        let after: Vec<J> = vars.iter().map(|(n, _)| enc::value(&root.get_variable(n.as_str()).unwrap())).collect();
        let vars_json: Vec<J> = variants.iter().map(|sh| run::vars_json(&effective(&vars, sh))).collect();
        let vars_after: Vec<J> = vars.iter().zip(after.iter()).map(|((n, _), a)| json!([n, a])).collect();
        let _ = before;
        for (t, rs) in results.iter().enumerate() {
            for (k, (i, var, o)) in rs.iter().enumerate() {
                id += 1;
                writeln!(out, "{}", json!({"ev": "case", "id": id, "thread": t, "seq": k, "prog": i, "src": srcs[*i], "ast": asts[*i], "vars": vars_json[*var], "vars_before": vars_json[0], "variant": var, "log": [], "nolog": true,
                                            "out": o, "twin": {"src": "alone", "out": alone[*var][*i], "log": []}, "vars_after": vars_after})).unwrap();
            }
        }
    }
    id
}
