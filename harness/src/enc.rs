//! Structural encoders: cel-rust values, errors and ASTs -> the JSON schema read by the TLA+
//! trace specifications (DESIGN.md 4.3).  64-bit integers become base-10^4 limbs, doubles their
//! four 16-bit words, strings code-point arrays.  No normalisation happens here.
use cel_interpreter::objects::{Key, Map};
use cel_interpreter::{ExecutionError, Value};
use cel_parser::ast::{EntryExpr, Expr, IdedExpr};
use cel_parser::reference::Val;
use serde_json::{json, Value as J};
use std::collections::HashMap;
use std::sync::Arc;

pub fn big(n: i128) -> J {
    let s = if n < 0 { -1 } else if n > 0 { 1 } else { 0 };
    let mut m = n.unsigned_abs();
    let mut limbs = vec![];
    while m > 0 {
        limbs.push((m % 10000) as u64);
        m /= 10000;
    }
    json!({"s": s, "m": limbs})
}

pub fn unbig(j: &J) -> Option<i128> {
    let s = j.get("s")?.as_i64()?;
    let mut acc: i128 = 0;
    for l in j.get("m")?.as_array()?.iter().rev() {
        acc = acc.checked_mul(10000)?.checked_add(l.as_i64()? as i128)?;
    }
    Some(if s < 0 { -acc } else { acc })
}

pub fn cps(s: &str) -> J {
    J::Array(s.chars().map(|c| json!(c as u32)).collect())
}

pub fn uncps(j: &J) -> Option<String> {
    let mut s = String::new();
    for c in j.as_array()? {
        s.push(char::from_u32(c.as_u64()? as u32)?);
    }
    Some(s)
}

pub fn dbl_words(f: f64) -> J {
    let b = f.to_bits();
    json!([(b >> 48) & 0xffff, (b >> 32) & 0xffff, (b >> 16) & 0xffff, b & 0xffff])
}

pub fn undbl(j: &J) -> Option<f64> {
    let a = j.as_array()?;
    if a.len() != 4 {
        return None;
    }
    let mut b: u64 = 0;
    for w in a {
        b = (b << 16) | w.as_u64()?;
    }
    Some(f64::from_bits(b))
}

pub fn key(k: &Key) -> J {
    match k {
        Key::Int(i) => json!({"t": "int", "n": big(*i as i128)}),
        Key::Uint(u) => json!({"t": "uint", "n": big(*u as i128)}),
        Key::Bool(b) => json!({"t": "bool", "v": b}),
        Key::String(s) => json!({"t": "str", "cp": cps(s)}),
    }
}

pub fn dur_ns(d: &chrono::Duration) -> i128 {
    d.num_seconds() as i128 * 1_000_000_000 + d.subsec_nanos() as i128
}

pub fn ts_ns(t: &chrono::DateTime<chrono::FixedOffset>) -> i128 {
    t.timestamp() as i128 * 1_000_000_000 + t.timestamp_subsec_nanos() as i128
}

/// `ord`: whether the entry order listed for maps is this instance's iteration order
/// (true for values handed to / read back from the implementation as they are).
pub fn value(v: &Value) -> J {
    match v {
        Value::Int(i) => json!({"t": "int", "n": big(*i as i128)}),
        Value::UInt(u) => json!({"t": "uint", "n": big(*u as i128)}),
        Value::Float(f) => json!({"t": "dbl", "b": dbl_words(*f)}),
        Value::String(s) => json!({"t": "str", "cp": cps(s)}),
        Value::Bytes(b) => json!({"t": "bytes", "b": b.as_ref()}),
        Value::Bool(b) => json!({"t": "bool", "v": b}),
        Value::Null => json!({"t": "null"}),
        Value::List(l) => json!({"t": "list", "e": l.iter().map(value).collect::<Vec<_>>()}),
        Value::Map(m) => {
            let e: Vec<J> = m.map.iter().map(|(k, v)| json!([key(k), value(v)])).collect();
            json!({"t": "map", "e": e, "ord": true})
        }
        Value::Duration(d) => json!({"t": "dur", "n": big(dur_ns(d))}),
        Value::Timestamp(t) => {
            json!({"t": "ts", "n": big(ts_ns(t)), "off": t.offset().local_minus_utc()})
        }
        Value::Function(name, _) => json!({"t": "fn", "name": name.as_str()}),
    }
}

/// JSON (as produced by `value` or by a TLC vector) -> Value, for replay.
pub fn unvalue(j: &J) -> Option<Value> {
    let t = j.get("t")?.as_str()?;
    Some(match t {
        "int" => Value::Int(i64::try_from(unbig(j.get("n")?)?).ok()?),
        "uint" => Value::UInt(u64::try_from(unbig(j.get("n")?)?).ok()?),
        "dbl" => Value::Float(undbl(j.get("b")?)?),
        "str" => Value::String(Arc::new(uncps(j.get("cp")?)?)),
        "bytes" => Value::Bytes(Arc::new(
            j.get("b")?.as_array()?.iter().map(|b| b.as_u64().map(|x| x as u8)).collect::<Option<Vec<u8>>>()?,
        )),
        "bool" => Value::Bool(j.get("v")?.as_bool()?),
        "null" => Value::Null,
        "list" => Value::List(Arc::new(
            j.get("e")?.as_array()?.iter().map(unvalue).collect::<Option<Vec<_>>>()?,
        )),
        "map" => {
            let mut m = HashMap::new();
            for kv in j.get("e")?.as_array()? {
                let kv = kv.as_array()?;
                let k: Key = match unvalue(&kv[0])? {
                    Value::Int(i) => Key::Int(i),
                    Value::UInt(u) => Key::Uint(u),
                    Value::Bool(b) => Key::Bool(b),
                    Value::String(s) => Key::String(s),
                    _ => return None,
                };
                m.insert(k, unvalue(&kv[1])?);
            }
            Value::Map(Map { map: Arc::new(m) })
        }
        "dur" => {
            let ns = unbig(j.get("n")?)?;
            let secs = ns.div_euclid(1_000_000_000);
            let sub = ns.rem_euclid(1_000_000_000);
            Value::Duration(chrono::Duration::new(i64::try_from(secs).ok()?, sub as u32)?)
        }
        "ts" => {
            let ns = unbig(j.get("n")?)?;
            let secs = ns.div_euclid(1_000_000_000);
            let sub = ns.rem_euclid(1_000_000_000);
            let off = chrono::FixedOffset::east_opt(j.get("off")?.as_i64()? as i32)?;
            let utc = chrono::DateTime::from_timestamp(i64::try_from(secs).ok()?, sub as u32)?;
            Value::Timestamp(utc.with_timezone(&off))
        }
        _ => return None,
    })
}

/// ExecutionError -> class (by variant, never by message text) plus the name it carries.
pub fn error(e: &ExecutionError) -> J {
    let (c, name): (&str, Option<String>) = match e {
        ExecutionError::InvalidArgumentCount { .. } => ("type", None),
        ExecutionError::UnsupportedTargetType { .. } => ("type", None),
        ExecutionError::NotSupportedAsMethod { .. } => ("type", None),
        ExecutionError::UnsupportedKeyType(_) => ("type", None),
        ExecutionError::UnexpectedType { .. } => ("type", None),
        ExecutionError::NoSuchKey(n) => ("nokey", Some(n.to_string())),
        ExecutionError::UndeclaredReference(n) => ("undeclared", Some(n.to_string())),
        ExecutionError::MissingArgumentOrTarget => ("type", None),
        ExecutionError::ValuesNotComparable(_, _) => ("type", None),
        ExecutionError::UnsupportedUnaryOperator(_, _) => ("type", None),
        ExecutionError::UnsupportedBinaryOperator(_, _, _) => ("type", None),
        ExecutionError::UnsupportedMapIndex(_) => ("type", None),
        ExecutionError::UnsupportedListIndex(_) => ("type", None),
        ExecutionError::UnsupportedIndex(_, _) => ("type", None),
        ExecutionError::UnsupportedFunctionCallIdentifierType(_) => ("type", None),
        ExecutionError::UnsupportedFieldsConstruction(_) => ("type", None),
        ExecutionError::FunctionError { function, .. } => ("fnerr", Some(function.clone())),
        ExecutionError::DivisionByZero(_) => ("div0", None),
        ExecutionError::RemainderByZero(_) => ("rem0", None),
        ExecutionError::IntegerOverflow(_, _, _) => ("overflow", None),
        _ => ("other", None),
    };
    json!({"k": "e", "c": c, "name": name.unwrap_or_default(), "variant": variant_name(e)})
}

pub fn variant_name(e: &ExecutionError) -> String {
    let d = format!("{:?}", e);
    d.split(|c: char| !c.is_alphanumeric()).next().unwrap_or("").to_string()
}

pub fn lit(v: &Val) -> J {
    match v {
        Val::String(s) => json!({"t": "str", "cp": cps(s)}),
        Val::Boolean(b) => json!({"t": "bool", "v": b}),
        Val::Int(i) => json!({"t": "int", "n": big(*i as i128)}),
        Val::UInt(u) => json!({"t": "uint", "n": big(*u as i128)}),
        Val::Double(f) => json!({"t": "dbl", "b": dbl_words(*f)}),
        Val::Bytes(b) => json!({"t": "bytes", "b": b}),
        Val::Null => json!({"t": "null"}),
    }
}

/// The ids of every node of the public AST, in preorder (entries of maps / structs included).
pub fn ast_ids(e: &IdedExpr, out: &mut Vec<u64>) {
    out.push(e.id);
    match &e.expr {
        Expr::Unspecified | Expr::Literal(_) | Expr::Ident(_) => {}
        Expr::Select(s) => ast_ids(&s.operand, out),
        Expr::Call(c) => {
            if let Some(t) = &c.target {
                ast_ids(t, out);
            }
            for a in &c.args {
                ast_ids(a, out);
            }
        }
        Expr::List(l) => {
            for x in &l.elements {
                ast_ids(x, out);
            }
        }
        Expr::Map(m) => {
            for en in &m.entries {
                out.push(en.id);
                match &en.expr {
                    EntryExpr::MapEntry(me) => { ast_ids(&me.key, out); ast_ids(&me.value, out); }
                    EntryExpr::StructField(sf) => ast_ids(&sf.value, out),
                }
            }
        }
        Expr::Comprehension(c) => {
            for x in [&c.iter_range, &c.accu_init, &c.loop_cond, &c.loop_step, &c.result] {
                ast_ids(x, out);
            }
        }
        Expr::Struct(s) => {
            for en in &s.entries {
                out.push(en.id);
                match &en.expr {
                    EntryExpr::MapEntry(me) => { ast_ids(&me.key, out); ast_ids(&me.value, out); }
                    EntryExpr::StructField(sf) => ast_ids(&sf.value, out),
                }
            }
        }
    }
}

/// The public AST, verbatim minus ids.
pub fn ast(e: &IdedExpr) -> J {
    match &e.expr {
        Expr::Unspecified => json!({"k": "unspecified"}),
        Expr::Literal(v) => json!({"k": "lit", "v": lit(v)}),
        Expr::Ident(n) => json!({"k": "id", "name": n, "ncp": cps(n)}),
        Expr::Select(s) => json!({"k": "sel", "e": ast(&s.operand), "field": s.field, "fcp": cps(&s.field), "test": s.test}),
        Expr::Call(c) => json!({
            "k": "call", "fn": c.func_name, "fcp": cps(&c.func_name),
            "tgt": match &c.target { None => json!({"k": "none"}), Some(t) => ast(t) },
            "args": c.args.iter().map(ast).collect::<Vec<_>>()}),
        Expr::List(l) => json!({"k": "list", "e": l.elements.iter().map(ast).collect::<Vec<_>>()}),
        Expr::Map(m) => json!({"k": "map", "e": m.entries.iter().map(|en| match &en.expr {
            EntryExpr::MapEntry(me) => json!([ast(&me.key), ast(&me.value)]),
            EntryExpr::StructField(sf) => json!([{"k": "field", "name": sf.field}, ast(&sf.value)]),
        }).collect::<Vec<_>>()}),
        Expr::Comprehension(c) => json!({
            "k": "comp", "range": ast(&c.iter_range), "var": c.iter_var, "accu": c.accu_var, "varcp": cps(&c.iter_var), "accucp": cps(&c.accu_var),
            "init": ast(&c.accu_init), "cond": ast(&c.loop_cond), "step": ast(&c.loop_step), "res": ast(&c.result)}),
        Expr::Struct(s) => json!({"k": "struct", "name": s.type_name, "e": s.entries.iter().map(|en| match &en.expr {
            EntryExpr::MapEntry(me) => json!([ast(&me.key), ast(&me.value)]),
            EntryExpr::StructField(sf) => json!([{"k": "field", "name": sf.field}, ast(&sf.value)]),
        }).collect::<Vec<_>>()}),
    }
}
