//! Seeded generators: typed CEL expression trees rendered to source text, contexts, values.
use crate::rng::Rng;
use cel_interpreter::objects::{Key, Map};
use cel_interpreter::Value;
use std::collections::HashMap;
use std::sync::Arc;

#[derive(Clone, Debug, PartialEq)]
pub enum T {
    Bool,
    Int,
    Uint,
    Dbl,
    Str,
    Bytes,
    Null,
    List(Box<T>),
    Map(Box<T>, Box<T>),
}

#[derive(Clone, Debug)]
pub enum G {
    Atom(String),
    Bin(&'static str, Box<G>, Box<G>),
    Un(&'static str, Box<G>),
    Cond(Box<G>, Box<G>, Box<G>),
    Call(String, Vec<G>),
    Method(Box<G>, String, Vec<G>),
    List(Vec<G>),
    MapLit(Vec<(G, G)>),
    Index(Box<G>, Box<G>),
    Sel(Box<G>, String),
    Has(Box<G>, String),
    Macro(Box<G>, &'static str, String, Vec<G>),
}

impl G {
    pub fn atom(s: &str) -> G {
        G::Atom(s.to_string())
    }
    fn is_postfix_safe(&self) -> bool {
        matches!(
            self,
            G::Atom(_) | G::Call(..) | G::Method(..) | G::List(_) | G::MapLit(_) | G::Index(..) | G::Sel(..) | G::Has(..) | G::Macro(..)
        )
    }
    fn paren(&self) -> String {
        match self {
            G::Atom(s) if s.starts_with('-') => format!("({})", s),
            g if g.is_postfix_safe() => g.render(),
            g => format!("({})", g.render()),
        }
    }
    pub fn render(&self) -> String {
        match self {
            G::Atom(s) => s.clone(),
            G::Bin(op, a, b) => format!("{} {} {}", a.paren(), op, b.paren()),
            G::Un(op, a) => format!("{}{}", op, a.paren()),
            G::Cond(c, a, b) => format!("{} ? {} : {}", c.paren(), a.paren(), b.paren()),
            G::Call(f, args) => format!("{}({})", f, args.iter().map(|a| a.render()).collect::<Vec<_>>().join(", ")),
            G::Method(r, f, args) => {
                format!("{}.{}({})", r.paren(), f, args.iter().map(|a| a.render()).collect::<Vec<_>>().join(", "))
            }
            G::List(es) => format!("[{}]", es.iter().map(|a| a.render()).collect::<Vec<_>>().join(", ")),
            G::MapLit(es) => format!(
                "{{{}}}",
                es.iter().map(|(k, v)| format!("{}: {}", k.render(), v.render())).collect::<Vec<_>>().join(", ")
            ),
            G::Index(a, i) => format!("{}[{}]", a.paren(), i.render()),
            G::Sel(a, f) => format!("{}.{}", a.paren(), f),
            G::Has(a, f) => format!("has({}.{})", a.paren(), f),
            G::Macro(r, m, v, args) => format!(
                "{}.{}({}, {})",
                r.paren(),
                m,
                v,
                args.iter().map(|a| a.render()).collect::<Vec<_>>().join(", ")
            ),
        }
    }
}

pub const INT_POOL: &[i64] = &[
    0, 1, -1, 2, 3, 5, 7, 10, -10, 100, 255, 256, 65535, 2147483647, -2147483648, 2147483648, 4294967295, 4294967296,
    9007199254740991, 9007199254740992, 9007199254740993, -9007199254740993, 3037000499, 3037000500, 4611686018427387904,
    -4611686018427387904, 9223372036854775806, 9223372036854775807, -9223372036854775807, -9223372036854775808,
];
pub const UINT_POOL: &[u64] = &[
    0, 1, 2, 3, 7, 10, 255, 65536, 4294967295, 4294967296, 9007199254740993, 9223372036854775807, 9223372036854775808,
    18446744073709551614, 18446744073709551615,
];
pub const DBL_POOL: &[f64] = &[
    0.0, -0.0, 1.0, -1.0, 0.5, 1.5, 2.25, -3.75, 10.0, 1024.0, 1e10, 0.1, 1e300, -1e300, 9007199254740992.0,
    9007199254740994.0, 9223372036854775808.0, -9223372036854775808.0, 18446744073709551616.0, 4.9e-324,
];
pub const STR_POOL: &[&str] = &["", "a", "b", "ab", "abc", "k1", "x", "é", "ß∂", "🐱", "a b", "true", "1", "size"];
/// doubles that occur only as context values (no literal spelling)
pub const DBL_VAL_POOL: &[f64] = &[f64::NAN, f64::INFINITY, f64::NEG_INFINITY, 0.0, -0.0, 1.5];
/// field names for e.f / has(e.f): map keys of the pools, a key that never occurs, and names of registered functions
pub const FIELD_POOL: &[&str] = &["a", "b", "k1", "x", "nokey", "size", "h1"];
pub const BYTES_POOL: &[&[u8]] = &[b"", b"a", b"ab", b"abc", b"\xff", b"\x00\x01", b"ca", b"bb", b"bc", b"abcabd"];

pub fn int_lit(i: i64) -> String {
    format!("{}", i)
}
pub fn dbl_lit(f: f64) -> String {
    // a spelling the CEL grammar accepts (digits '.' digits exponent?); value is recovered by the parser
    let s = format!("{:e}", f);
    // "1e10" -> "1.0e10"; "-3.75e0" stays
    let (mant, exp) = s.split_once('e').unwrap();
    let mant = if mant.contains('.') { mant.to_string() } else { format!("{}.0", mant) };
    format!("{}e{}", mant, exp)
}
pub fn str_lit(s: &str) -> String {
    let mut out = String::from("'");
    for c in s.chars() {
        match c {
            '\'' => out.push_str("\\'"),
            '\\' => out.push_str("\\\\"),
            '\n' => out.push_str("\\n"),
            '\r' => out.push_str("\\r"),
            c => out.push(c),
        }
    }
    out.push('\'');
    out
}
pub fn bytes_lit(b: &[u8]) -> String {
    let mut out = String::from("b'");
    for x in b {
        out.push_str(&format!("\\x{:02x}", x));
    }
    out.push('\'');
    out
}

/// What the generator may use.
#[derive(Clone)]
pub struct Knobs {
    pub max_depth: usize,
    pub wrap_pct: u32,        // chance (in %) that a generated node is wrapped in t(tag, _)
    pub err_pct: u32,         // chance (in %) that a leaf is an error-raising expression
    pub macros: bool,
    pub host_calls: bool,     // h0..h4, m0..m3, va
    pub doubles: bool,
    pub logic_bias: bool,     // favour && || ?: (C06)
    pub clash_names: bool,    // macro variables may shadow context variables (C11)
    pub chain_pct: u32,       // chance (in %) that a macro ranges over another macro's result, reusing its variable (C10)
    pub self_pct: u32,        // chance (in %) that == / != / in compare an operand with itself (aliases of one value)
    pub coll_bias: bool,      // favour list / map / string results (C14)
    pub max_list: usize,
}

impl Default for Knobs {
    fn default() -> Self {
        Knobs { max_depth: 4, wrap_pct: 10, err_pct: 5, macros: true, host_calls: true, doubles: true, logic_bias: false, clash_names: false, chain_pct: 5, self_pct: 10, coll_bias: false, max_list: 4 }
    }
}

pub struct Ctx {
    pub vars: Vec<(String, T, Value)>,
}

pub struct Gen<'a> {
    pub last_var: Option<String>,
    pub rng: &'a mut Rng,
    pub knobs: Knobs,
    pub scope: Vec<(String, T)>, // variables visible (context + macro variables)
    pub tag: i64,
}

fn key_of(v: &Value) -> Key {
    match v {
        Value::Int(i) => Key::Int(*i),
        Value::UInt(u) => Key::Uint(*u),
        Value::Bool(b) => Key::Bool(*b),
        Value::String(s) => Key::String(s.clone()),
        _ => panic!("not a key"),
    }
}

pub fn gen_value(rng: &mut Rng, ty: &T, max_len: usize) -> Value {
    match ty {
        T::Bool => Value::Bool(rng.chance(1, 2)),
        T::Int => {
            if rng.chance(3, 4) {
                Value::Int(*rng.pick(INT_POOL))
            } else {
                Value::Int(rng.next_u64() as i64 >> rng.below(64))
            }
        }
        T::Uint => {
            if rng.chance(3, 4) {
                Value::UInt(*rng.pick(UINT_POOL))
            } else {
                Value::UInt(rng.next_u64() >> rng.below(64))
            }
        }
        T::Dbl => Value::Float(if rng.chance(1, 4) { *rng.pick(DBL_VAL_POOL) } else { *rng.pick(DBL_POOL) }),
        T::Str => Value::String(Arc::new(rng.pick(STR_POOL).to_string())),
        T::Bytes => Value::Bytes(Arc::new(rng.pick(BYTES_POOL).to_vec())),
        T::Null => Value::Null,
        T::List(et) => {
            let n = rng.below(max_len + 1);
            Value::List(Arc::new((0..n).map(|_| gen_value(rng, et, max_len)).collect()))
        }
        T::Map(kt, vt) => {
            let n = rng.below(max_len + 1);
            let mut m = HashMap::new();
            for _ in 0..n {
                let k = gen_value(rng, kt, max_len);
                m.insert(key_of(&k), gen_value(rng, vt, max_len));
            }
            Value::Map(Map { map: Arc::new(m) })
        }
    }
}

pub fn gen_context(rng: &mut Rng, max_len: usize) -> Ctx {
    let b = |t: T| Box::new(t);
    let specs: Vec<(&str, T)> = vec![
        ("vb1", T::Bool),
        ("vi1", T::Int),
        ("vi2", T::Int),
        ("vu1", T::Uint),
        ("vd1", T::Dbl),
        ("vs1", T::Str),
        ("vs2", T::Str),
        ("vy1", T::Bytes),
        ("vl1", T::List(b(T::Int))),
        ("vl2", T::List(b(T::Str))),
        ("vl3", T::List(b(T::List(b(T::Int))))),
        ("vl4", T::List(b(T::Dbl))),
        ("vm4", T::Map(b(T::Str), b(T::Dbl))),
        ("vm1", T::Map(b(T::Str), b(T::Int))),
        ("vm2", T::Map(b(T::Int), b(T::Str))),
        ("vm3", T::Map(b(T::Uint), b(T::Int))),
        ("x", T::Int),
        ("y", T::Str),
    ];
    let mut vars = vec![];
    for (n, t) in specs {
        // x / y exist only sometimes: they double as macro variable names
        if (n == "x" || n == "y") && rng.chance(1, 2) {
            continue;
        }
        let v = gen_value(rng, &t, max_len);
        vars.push((n.to_string(), t, v));
    }
    Ctx { vars }
}

impl<'a> Gen<'a> {
    pub fn new(rng: &'a mut Rng, knobs: Knobs, ctx: &Ctx) -> Self {
        let scope = ctx.vars.iter().map(|(n, t, _)| (n.clone(), t.clone())).collect();
        Gen { last_var: None, rng, knobs, scope, tag: 0 }
    }
    fn next_tag(&mut self) -> i64 {
        self.tag += 1;
        self.tag
    }
    fn pct(&mut self, p: u32) -> bool {
        self.rng.chance(p, 100)
    }
    fn wrap(&mut self, g: G) -> G {
        if self.pct(self.knobs.wrap_pct) {
            let t = self.next_tag();
            G::Call("t".into(), vec![G::Atom(int_lit(t)), g])
        } else {
            g
        }
    }
    fn vars_of(&self, ty: &T) -> Vec<String> {
        // innermost binding wins: a name counts only if its LAST entry has the type
        let mut out = vec![];
        for (i, (n, t)) in self.scope.iter().enumerate() {
            if t == ty && !self.scope[i + 1..].iter().any(|(m, _)| m == n) {
                out.push(n.clone());
            }
        }
        out
    }
    pub fn error_leaf(&mut self) -> G {
        let t = self.next_tag();
        match self.rng.below(8) {
            6 => G::Call("nofn".into(), vec![G::Atom(int_lit(t))]),
            7 => G::Method(Box::new(G::atom("1")), "nofn".into(), vec![]),
            0 => G::Bin("/", Box::new(G::atom("1")), Box::new(G::atom("0"))),
            1 => G::Bin("+", Box::new(G::atom("9223372036854775807")), Box::new(G::atom("1"))),
            2 => G::Sel(Box::new(G::MapLit(vec![])), "k".into()),
            3 => G::atom("undeclared_v"),
            4 => G::Call("fail".into(), vec![G::Atom(int_lit(t))]),
            _ => G::Bin("%", Box::new(G::atom("5")), Box::new(G::atom("0"))),
        }
    }
    pub fn literal(&mut self, ty: &T) -> G {
        match ty {
            T::Bool => G::atom(if self.rng.chance(1, 2) { "true" } else { "false" }),
            T::Int => G::Atom(int_lit(*self.rng.pick(INT_POOL))),
            T::Uint => G::Atom(format!("{}u", self.rng.pick(UINT_POOL))),
            T::Dbl => G::Atom(dbl_lit(*self.rng.pick(DBL_POOL))),
            T::Str => { let s: &str = *self.rng.pick(STR_POOL); G::Atom(str_lit(s)) }
            T::Bytes => { let b: &[u8] = *self.rng.pick(BYTES_POOL); G::Atom(bytes_lit(b)) }
            T::Null => G::atom("null"),
            T::List(et) => {
                let n = self.rng.below(self.knobs.max_list + 1);
                G::List((0..n).map(|_| self.literal(et)).collect())
            }
            T::Map(kt, vt) => {
                let n = self.rng.below(self.knobs.max_list + 1);
                let mut seen: Vec<String> = vec![];
                let mut es = vec![];
                for _ in 0..n {
                    let k = self.literal(kt);
                    let ks = k.render();
                    if seen.contains(&ks) {
                        continue;
                    }
                    seen.push(ks);
                    es.push((k, self.literal(vt)));
                }
                G::MapLit(es)
            }
        }
    }
    fn leaf(&mut self, ty: &T) -> G {
        if self.pct(self.knobs.err_pct) {
            return self.error_leaf();
        }
        let vs = self.vars_of(ty);
        if !vs.is_empty() && self.rng.chance(1, 2) {
            return G::Atom(self.rng.pick(&vs).clone());
        }
        if *ty == T::Bool && self.knobs.logic_bias && self.rng.chance(1, 2) {
            let t = self.next_tag();
            return G::Call("tb".into(), vec![G::Atom(int_lit(t))]);
        }
        self.literal(ty)
    }
    fn elem_types(&mut self) -> T {
        match self.rng.below(5) {
            0 => T::Int,
            1 => T::Str,
            2 => T::Uint,
            3 => T::Bool,
            _ => T::Int,
        }
    }
    fn num_type(&mut self) -> T {
        match self.rng.below(if self.knobs.doubles { 4 } else { 3 }) {
            0 | 1 => T::Int,
            2 => T::Uint,
            _ => T::Dbl,
        }
    }
    fn macro_var(&mut self) -> String {
        if let Some(v) = self.last_var.take() {
            if self.rng.chance(2, 3) {
                return v;
            }
        }
        let v = self.macro_var_fresh();
        self.last_var = Some(v.clone());
        v
    }
    fn macro_var_fresh(&mut self) -> String {
        if self.knobs.clash_names {
            self.rng.pick(&["x", "y", "z", "vi1", "vs1", "size"]).to_string()
        } else {
            self.rng.pick(&["x", "y", "z"]).to_string()
        }
    }
    /// range expression for a macro: a list or a map (ranging over keys); returns (expr, element type)
    fn macro_range(&mut self, d: usize) -> (G, T) {
        self.last_var = None;
        if self.knobs.macros && self.pct(self.knobs.chain_pct) {
            // a chain: the range is itself a filter / map over a list
            let et = self.elem_types();
            let (r, st) = if self.rng.chance(1, 2) {
                let st = self.elem_types();
                (self.expr(&T::List(Box::new(st.clone())), d.min(1)), st)
            } else {
                (self.expr(&T::List(Box::new(et.clone())), d.min(1)), et.clone())
            };
            let v = self.macro_var_fresh();
            let inner = if st == et && self.rng.chance(2, 3) {
                let f = self.with_var(&v, &st, |s| s.expr(&T::Bool, d));
                G::Macro(Box::new(r), "filter", v.clone(), vec![f])
            } else if self.rng.chance(1, 3) {
                let et2 = et.clone();
                let (f, b) = self.with_var(&v, &st, |s| (s.expr(&T::Bool, d), s.expr(&et2, d)));
                G::Macro(Box::new(r), "map", v.clone(), vec![f, b])
            } else {
                let et2 = et.clone();
                let b = self.with_var(&v, &st, |s| s.expr(&et2, d));
                G::Macro(Box::new(r), "map", v.clone(), vec![b])
            };
            self.last_var = Some(v);
            return (inner, et);
        }
        if self.rng.chance(1, 4) {
            let kt = if self.rng.chance(1, 2) { T::Str } else { T::Int };
            let mt = T::Map(Box::new(kt.clone()), Box::new(T::Int));
            (self.expr(&mt, d), kt)
        } else {
            let et = self.elem_types();
            (self.expr(&T::List(Box::new(et.clone())), d), et)
        }
    }
    fn with_var<R>(&mut self, name: &str, ty: &T, f: impl FnOnce(&mut Self) -> R) -> R {
        self.scope.push((name.to_string(), ty.clone()));
        let r = f(self);
        self.scope.pop();
        r
    }

    pub fn expr(&mut self, ty: &T, depth: usize) -> G {
        let g = self.expr_inner(ty, depth);
        self.wrap(g)
    }

    fn expr_inner(&mut self, ty: &T, depth: usize) -> G {
        if depth == 0 {
            return self.leaf(ty);
        }
        let d = depth - 1;
        let bx = |g: G| Box::new(g);
        // generic productions available at every type
        let generic = self.rng.below(100);
        if generic < 8 {
            let c = self.expr(&T::Bool, d);
            let a = self.expr(ty, d);
            let b = self.expr(ty, d);
            return G::Cond(bx(c), bx(a), bx(b));
        }
        if generic < 12 {
            // list index / map lookup producing ty
            if self.rng.chance(1, 2) {
                let l = self.expr(&T::List(Box::new(ty.clone())), d);
                let i = if self.rng.chance(2, 3) { G::Atom(int_lit(self.rng.range(-1, 4))) } else { self.expr(&T::Int, d) };
                return G::Index(bx(l), bx(i));
            } else {
                let kt = match self.rng.below(3) { 0 => T::Str, 1 => T::Int, _ => T::Uint };
                let m = self.expr(&T::Map(Box::new(kt.clone()), Box::new(ty.clone())), d);
                let k = self.expr(&kt, d);
                return G::Index(bx(m), bx(k));
            }
        }
        if generic < 15 && self.knobs.host_calls {
            // h1(e)[0] : identity through a host call
            let e = self.expr(ty, d);
            let f = *self.rng.pick(&["h1", "m0"]);
            let call = if f == "h1" || self.rng.chance(1, 2) { G::Call(f.into(), vec![e]) } else { G::Method(bx(e), f.into(), vec![]) };
            return G::Index(bx(call), bx(G::atom("0")));
        }
        match ty {
            T::Bool => {
                let n = if self.knobs.logic_bias { self.rng.below(6) } else { self.rng.below(16) };
                match n {
                    0 | 1 => G::Bin("&&", bx(self.expr(&T::Bool, d)), bx(self.expr(&T::Bool, d))),
                    2 | 3 => G::Bin("||", bx(self.expr(&T::Bool, d)), bx(self.expr(&T::Bool, d))),
                    4 => G::Cond(bx(self.expr(&T::Bool, d)), bx(self.expr(&T::Bool, d)), bx(self.expr(&T::Bool, d))),
                    5 => G::Un("!", bx(self.expr(&T::Bool, d))),
                    6 | 7 => {
                        // ordering on one orderable type (or cross numeric)
                        let op = *self.rng.pick(&["<", "<=", ">", ">=", "==", "!="]);
                        let (ta, tb) = match self.rng.below(6) {
                            0 => (T::Str, T::Str),
                            1 => {
                                let a = self.num_type();
                                let b = self.num_type();
                                (a, b)
                            }
                            2 => (T::Bool, T::Bool),
                            _ => {
                                let a = self.num_type();
                                (a.clone(), a)
                            }
                        };
                        G::Bin(op, bx(self.expr(&ta, d)), bx(self.expr(&tb, d)))
                    }
                    8 => {
                        let op = *self.rng.pick(&["==", "!="]);
                        let t = match self.rng.below(9) {
                            0 => T::List(Box::new(T::Int)),
                            1 => T::Map(Box::new(T::Str), Box::new(T::Int)),
                            2 => T::Bytes,
                            3 => T::Null,
                            4 => T::Str,
                            5 => T::List(Box::new(T::Dbl)),
                            6 => T::Map(Box::new(T::Str), Box::new(T::Dbl)),
                            7 => T::Dbl,
                            _ => T::Int,
                        };
                        let a = self.expr(&t, d);
                        if self.pct(self.knobs.self_pct * 3) {
                            // both operands are the same expression: aliases of one value when it is a variable
                            let b = a.clone();
                            if self.rng.chance(1, 3) {
                                return G::Bin("in", bx(a), bx(G::List(vec![b])));
                            }
                            return G::Bin(op, bx(a), bx(b));
                        }
                        G::Bin(op, bx(a), bx(self.expr(&t, d)))
                    }
                    9 => {
                        // membership
                        if self.rng.chance(1, 2) {
                            let et = self.elem_types();
                            G::Bin("in", bx(self.expr(&et, d)), bx(self.expr(&T::List(Box::new(et)), d)))
                        } else {
                            let kt = match self.rng.below(3) { 0 => T::Str, 1 => T::Int, _ => T::Uint };
                            G::Bin("in", bx(self.expr(&kt, d)), bx(self.expr(&T::Map(Box::new(kt.clone()), Box::new(T::Int)), d)))
                        }
                    }
                    10 | 11 if self.knobs.macros => {
                        let (r, et) = self.macro_range(d);
                        let v = self.macro_var();
                        let m = *self.rng.pick(&["all", "exists", "exists_one", "existsOne"]);
                        let body = self.with_var(&v, &et, |s| s.expr(&T::Bool, d));
                        G::Macro(bx(r), m, v, vec![body])
                    }
                    12 => {
                        let m = self.expr(&T::Map(Box::new(T::Str), Box::new(T::Int)), d);
                        G::Has(bx(m), self.rng.pick(FIELD_POOL).to_string())
                    }
                    13 if self.rng.chance(1, 4) => {
                        // regular expressions of the fragment the specification pins
                        let a = self.expr(&T::Str, d);
                        let pat: &str = *self.rng.pick(&["a", "^a", "b$", "^ab?c?$", "a|k", "[a-k]1", "^$", ".", "^.$", "(ab)+", "a b", "[^a]", "é", "^(a|b)*$", "x*", "1|true"]);
                        let b = G::Atom(str_lit(pat));
                        if self.rng.chance(1, 2) { G::Method(bx(a), "matches".into(), vec![b]) } else { G::Call("matches".into(), vec![a, b]) }
                    }
                    13 if self.rng.chance(1, 3) => {
                        // bytes.contains(bytes)
                        let a = self.expr(&T::Bytes, d);
                        let b = self.expr(&T::Bytes, d);
                        if self.rng.chance(1, 2) { G::Method(bx(a), "contains".into(), vec![b]) } else { G::Call("contains".into(), vec![a, b]) }
                    }
                    13 => {
                        let f = *self.rng.pick(&["startsWith", "endsWith", "contains"]);
                        let a = self.expr(&T::Str, d);
                        let b = self.expr(&T::Str, d);
                        if self.rng.chance(1, 2) { G::Method(bx(a), f.into(), vec![b]) } else { G::Call(f.into(), vec![a, b]) }
                    }
                    14 => {
                        let et = self.elem_types();
                        let l = self.expr(&T::List(Box::new(et.clone())), d);
                        let x = self.expr(&et, d);
                        G::Method(bx(l), "contains".into(), vec![x])
                    }
                    _ => {
                        let t = self.next_tag();
                        G::Call("tb".into(), vec![G::Atom(int_lit(t))])
                    }
                }
            }
            T::Int => match self.rng.below(12) {
                0..=4 => {
                    let op = *self.rng.pick(&["+", "-", "*", "/", "%"]);
                    G::Bin(op, bx(self.expr(&T::Int, d)), bx(self.expr(&T::Int, d)))
                }
                5 => G::Un("-", bx(self.expr(&T::Int, d))),
                6 => {
                    let t = match self.rng.below(4) {
                        0 => T::Str,
                        1 => T::List(Box::new(T::Int)),
                        2 => T::Map(Box::new(T::Str), Box::new(T::Int)),
                        _ => T::Bytes,
                    };
                    let e = self.expr(&t, d);
                    if self.rng.chance(1, 2) { G::Call("size".into(), vec![e]) } else { G::Method(bx(e), "size".into(), vec![]) }
                }
                7 | 8 => {
                    let t = match self.rng.below(4) { 0 => T::Uint, 1 if self.knobs.doubles => T::Dbl, 2 => T::Str, _ => T::Int };
                    let e = if t == T::Str { G::Atom(str_lit(&format!("{}", self.rng.pick(INT_POOL)))) } else { self.expr(&t, d) };
                    if self.rng.chance(1, 2) { G::Call("int".into(), vec![e]) } else { G::Method(bx(e), "int".into(), vec![]) }
                }
                9 => {
                    let f = *self.rng.pick(&["min", "max"]);
                    let n = 1 + self.rng.below(3);
                    if self.rng.chance(1, 2) {
                        G::Call(f.into(), (0..=n).map(|_| self.expr(&T::Int, d)).collect())
                    } else {
                        G::Call(f.into(), vec![G::List((0..=n).map(|_| self.expr(&T::Int, d)).collect())])
                    }
                }
                10 => G::Sel(bx(self.expr(&T::Map(Box::new(T::Str), Box::new(T::Int)), d)), self.rng.pick(FIELD_POOL).to_string()),
                _ => self.leaf(ty),
            },
            T::Uint => match self.rng.below(8) {
                0..=4 => {
                    let op = *self.rng.pick(&["+", "-", "*", "/", "%"]);
                    G::Bin(op, bx(self.expr(&T::Uint, d)), bx(self.expr(&T::Uint, d)))
                }
                5 | 6 => {
                    let t = match self.rng.below(3) { 0 => T::Int, 1 if self.knobs.doubles => T::Dbl, _ => T::Uint };
                    let e = self.expr(&t, d);
                    if self.rng.chance(1, 2) { G::Call("uint".into(), vec![e]) } else { G::Method(bx(e), "uint".into(), vec![]) }
                }
                _ => self.leaf(ty),
            },
            T::Dbl => match self.rng.below(8) {
                0..=3 => {
                    let op = *self.rng.pick(&["+", "-", "*", "/"]);
                    G::Bin(op, bx(self.expr(&T::Dbl, d)), bx(self.expr(&T::Dbl, d)))
                }
                4 => G::Un("-", bx(self.expr(&T::Dbl, d))),
                5 | 6 => {
                    let t = match self.rng.below(3) { 0 => T::Int, 1 => T::Uint, _ => T::Dbl };
                    let e = self.expr(&t, d);
                    if self.rng.chance(1, 2) { G::Call("double".into(), vec![e]) } else { G::Method(bx(e), "double".into(), vec![]) }
                }
                _ => self.leaf(ty),
            },
            T::Str => match self.rng.below(8) {
                0..=2 => G::Bin("+", bx(self.expr(&T::Str, d)), bx(self.expr(&T::Str, d))),
                3 | 4 => {
                    let t = match self.rng.below(3) { 0 => T::Int, 1 => T::Uint, _ => T::Str };
                    let e = self.expr(&t, d);
                    if self.rng.chance(1, 2) { G::Call("string".into(), vec![e]) } else { G::Method(bx(e), "string".into(), vec![]) }
                }
                _ => self.leaf(ty),
            },
            T::Bytes => match self.rng.below(4) {
                0 => G::Call("bytes".into(), vec![self.expr(&T::Str, d)]),
                _ => self.leaf(ty),
            },
            T::Null => self.leaf(ty),
            T::List(et) => match self.rng.below(10) {
                0 | 1 => G::Bin("+", bx(self.expr(ty, d)), bx(self.expr(ty, d))),
                2 | 3 => {
                    let n = self.rng.below(self.knobs.max_list + 1);
                    G::List((0..n).map(|_| self.expr(et, d)).collect())
                }
                4 | 5 if self.knobs.macros => {
                    // r.map(v, body) / r.map(v, filter, body)
                    let (r, st) = self.macro_range(d);
                    let v = self.macro_var();
                    let et2 = (**et).clone();
                    if self.rng.chance(1, 3) {
                        let (f, b) = self.with_var(&v, &st, |s| (s.expr(&T::Bool, d), s.expr(&et2, d)));
                        G::Macro(bx(r), "map", v, vec![f, b])
                    } else {
                        let b = self.with_var(&v, &st, |s| s.expr(&et2, d));
                        G::Macro(bx(r), "map", v, vec![b])
                    }
                }
                6 if self.knobs.macros => {
                    let r = self.expr(ty, d);
                    let v = self.macro_var();
                    let et2 = (**et).clone();
                    let f = self.with_var(&v, &et2, |s| s.expr(&T::Bool, d));
                    G::Macro(bx(r), "filter", v, vec![f])
                }
                _ => self.leaf(ty),
            },
            T::Map(kt, vt) => match self.rng.below(4) {
                0 | 1 => {
                    let n = self.rng.below(self.knobs.max_list + 1);
                    let mut es = vec![];
                    let mut seen: Vec<String> = vec![];
                    for _ in 0..n {
                        let k = self.literal(kt);
                        let ks = k.render();
                        if seen.contains(&ks) {
                            continue;
                        }
                        seen.push(ks);
                        let k = self.wrap(k);
                        es.push((k, self.expr(vt, d)));
                    }
                    G::MapLit(es)
                }
                _ => self.leaf(ty),
            },
        }
    }
}


/// Any value of any kind (C02 / C18): extremes, NaN, infinities, empty and non-ASCII text, nested
/// collections, durations and timestamps up to chrono's limits, function values.
pub fn gen_any_value(rng: &mut Rng, depth: usize, with_fn: bool) -> Value {
    let k = if depth == 0 { rng.below(11) } else { rng.below(14) };
    match k {
        0 => Value::Int(*rng.pick(INT_POOL)),
        1 => Value::UInt(*rng.pick(UINT_POOL)),
        2 => Value::Float(*rng.pick(&[f64::NAN, f64::INFINITY, f64::NEG_INFINITY, 0.0, -0.0, 1.5, -2.25, 1e300, 5e-324, 9007199254740993.0, 1.8446744073709552e19])),
        3 => Value::String(Arc::new(rng.pick(STR_POOL).to_string())),
        4 => Value::Bytes(Arc::new(rng.pick(BYTES_POOL).to_vec())),
        5 => Value::Bool(rng.chance(1, 2)),
        6 => Value::Null,
        7 => {
            let ds = [chrono::Duration::zero(), chrono::Duration::nanoseconds(1), chrono::Duration::nanoseconds(-1), chrono::Duration::seconds(5400),
                      chrono::Duration::nanoseconds(i64::MAX), chrono::Duration::nanoseconds(i64::MIN + 1), chrono::Duration::MAX, chrono::Duration::MIN,
                      chrono::Duration::milliseconds(1500), chrono::Duration::seconds(-86400 * 365 * 300)];
            Value::Duration(*rng.pick(&ds))
        }
        8 => {
            let ts = ["0001-01-01T00:00:00Z", "9999-12-31T23:59:59.999999999Z", "1970-01-01T00:00:00Z", "2024-02-29T12:30:45.123456789+05:30",
                      "1969-12-31T23:59:59.999-12:00", "2038-01-19T03:14:08+14:00", "1582-10-15T00:00:00Z", "0001-01-01T00:00:00+14:00", "9999-12-31T23:59:59-12:00"];
            let tsv: &str = *rng.pick(&ts); let mut t = chrono::DateTime::parse_from_rfc3339(tsv).unwrap();
            if rng.chance(1, 6) {
                t = chrono::DateTime::<chrono::Utc>::MAX_UTC.fixed_offset();
            } else if rng.chance(1, 6) {
                t = chrono::DateTime::<chrono::Utc>::MIN_UTC.fixed_offset();
            }
            Value::Timestamp(t)
        }
        9 if with_fn => Value::Function(Arc::new(rng.pick(&["size", "nofn", "t"]).to_string()), None),
        9 | 10 => Value::Int(rng.range(-5, 5)),
        11 | 12 => {
            let n = rng.below(4);
            Value::List(Arc::new((0..n).map(|_| gen_any_value(rng, depth - 1, with_fn)).collect()))
        }
        _ => {
            let n = rng.below(4);
            let mut m = HashMap::new();
            for _ in 0..n {
                let k = match rng.below(4) {
                    0 => Key::Int(*rng.pick(&[0i64, 1, -1, i64::MAX, i64::MIN])),
                    1 => Key::Uint(*rng.pick(&[0u64, 1, u64::MAX])),
                    2 => Key::Bool(rng.chance(1, 2)),
                    _ => Key::String(Arc::new(rng.pick(&["a", "b", "k1", "1", "true", "", "é"]).to_string())),
                };
                m.insert(k, gen_any_value(rng, depth - 1, with_fn));
            }
            Value::Map(Map { map: Arc::new(m) })
        }
    }
}
