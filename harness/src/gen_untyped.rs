//! Untyped program generator: every operator, macro, built-in, literal form and call shape,
//! well-typed or not (C02, C19).  Returns source text; identifiers come from caller-supplied pools.
use crate::gen::{bytes_lit, dbl_lit, str_lit, BYTES_POOL, DBL_POOL, INT_POOL, STR_POOL, UINT_POOL};
use crate::rng::Rng;

pub struct U<'a> {
    pub rng: &'a mut Rng,
    pub vars: Vec<String>,      // identifier pool (may or may not be defined by the context)
    pub fns: Vec<String>,       // function-name pool (built-ins, zoo, unknown)
    pub macro_vars: Vec<String>,
    pub used: Vec<String>,      // identifiers written into the source
    pub tag: i64,
    pub wrap_pct: u32,
    pub structs: bool,
}

const BUILTINS: &[&str] = &["size", "contains", "startsWith", "endsWith", "string", "bytes", "double", "int", "uint", "min", "max", "matches",
    "duration", "timestamp", "getFullYear", "getMonth", "getDayOfYear", "getDayOfMonth", "getDate", "getDayOfWeek", "getHours", "getMinutes", "getSeconds", "getMilliseconds"];

impl<'a> U<'a> {
    fn ident(&mut self) -> String {
        let n = self.rng.pick(&self.vars).clone();
        if !self.used.contains(&n) {
            self.used.push(n.clone());
        }
        n
    }
    fn literal(&mut self) -> String {
        match self.rng.below(12) {
            0 => format!("{}", self.rng.pick(INT_POOL)),
            1 => format!("{}u", self.rng.pick(UINT_POOL)),
            2 => dbl_lit(*self.rng.pick(DBL_POOL)),
            3 => { let s: &str = *self.rng.pick(STR_POOL); str_lit(s) }
            4 => { let b: &[u8] = *self.rng.pick(BYTES_POOL); bytes_lit(b) }
            5 => "true".into(),
            6 => "false".into(),
            7 => "null".into(),
            8 => "[]".into(),
            9 => "{}".into(),
            10 => format!("{}", self.rng.range(-3, 5)),
            _ => { let s: &str = *self.rng.pick(&["'2024-02-29T23:59:59.5+02:00'", "'1h30m'", "'-1.5ms'", "'abc'", "'^a.*$'", "'9223372036854775807'", "'NaN'", "'1e400'"]); s.to_string() }
        }
    }
    fn leaf(&mut self) -> String {
        if self.rng.chance(2, 5) { self.ident() } else { self.literal() }
    }
    fn args(&mut self, d: usize, max: usize) -> Vec<String> {
        let n = self.rng.below(max + 1);
        (0..n).map(|_| self.expr(d)).collect()
    }
    pub fn expr(&mut self, depth: usize) -> String {
        let e = self.expr_inner(depth);
        if self.rng.chance(self.wrap_pct, 100) {
            self.tag += 1;
            format!("t({}, {})", self.tag, e)
        } else {
            e
        }
    }
    fn expr_inner(&mut self, depth: usize) -> String {
        if depth == 0 || self.rng.chance(1, 5) {
            return self.leaf();
        }
        let d = depth - 1;
        match self.rng.below(30) {
            0..=4 => {
                let op = *self.rng.pick(&["+", "-", "*", "/", "%", "==", "!=", "<", "<=", ">", ">=", "in", "&&", "||"]);
                format!("({} {} {})", self.expr(d), op, self.expr(d))
            }
            5 => format!("(!{})", self.expr(d)),
            6 => format!("(-{})", self.expr(d)),
            7 | 8 => format!("({} ? {} : {})", self.expr(d), self.expr(d), self.expr(d)),
            9 | 10 => format!("{}[{}]", self.postfix(d), self.expr(d)),
            11 | 12 => {
                let f = *self.rng.pick(&["a", "b", "k1", "f", "size", "x"]);
                format!("{}.{}", self.postfix(d), f)
            }
            13 => {
                let f = *self.rng.pick(&["a", "b", "k1", "f"]);
                let base = self.postfix(d);
                format!("has({}.{})", base, f)
            }
            14 | 15 => format!("[{}]", self.args(d, 3).join(", ")),
            16 | 17 => {
                let n = self.rng.below(3);
                let es: Vec<String> = (0..n).map(|_| format!("{}: {}", self.expr(d), self.expr(d))).collect();
                format!("{{{}}}", es.join(", "))
            }
            18..=20 => {
                // global call: built-in, zoo, or pool function
                let f = if self.rng.chance(1, 2) { self.rng.pick(BUILTINS).to_string() } else { self.rng.pick(&self.fns).clone() };
                format!("{}({})", f, self.args(d, 3).join(", "))
            }
            21..=23 => {
                let f = if self.rng.chance(1, 2) { self.rng.pick(BUILTINS).to_string() } else { self.rng.pick(&self.fns).clone() };
                format!("{}.{}({})", self.postfix(d), f, self.args(d, 2).join(", "))
            }
            24..=27 => {
                let m = *self.rng.pick(&["all", "exists", "exists_one", "existsOne", "map", "filter", "map3"]);
                let v = self.rng.pick(&self.macro_vars).clone();
                if !self.used.contains(&v) {
                    self.used.push(v.clone());
                }
                let range = self.postfix(d);
                // the body may use the macro variable
                self.vars.push(v.clone());
                let r = if m == "map3" {
                    format!("{}.map({}, {}, {})", range, v, self.expr(d), self.expr(d))
                } else {
                    format!("{}.{}({}, {})", range, m, v, self.expr(d))
                };
                self.vars.pop();
                r
            }
            28 if self.structs => {
                let n = self.rng.below(3);
                let es: Vec<String> = (0..n).map(|i| format!("f{}: {}", i, self.expr(d))).collect();
                format!("Msg{{{}}}", es.join(", "))
            }
            _ => self.leaf(),
        }
    }
    /// an expression that can be followed by `.f`, `[i]` or `.m(...)` without parentheses trouble
    fn postfix(&mut self, d: usize) -> String {
        if self.rng.chance(1, 3) {
            self.ident()
        } else {
            let e = self.expr(d);
            if e.starts_with('(') || e.starts_with('[') || e.starts_with('{') || e.ends_with(')') || e.ends_with(']') {
                if e.starts_with('-') || e.starts_with('!') { format!("({})", e) } else { e }
            } else {
                format!("({})", e)
            }
        }
    }
}
