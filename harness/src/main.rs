fn main() { println!("{:?}", cel_interpreter::Program::compile("1+1").unwrap().execute(&cel_interpreter::Context::default())); }
