mod drive_ctx;
mod drive_data;
mod drive_eval;
mod drive_ops;
mod drive_parse;
mod drive_refs;
mod drive_share;
mod enc;
mod gen;
mod gen_untyped;
mod rng;
mod run;
mod zoo;

use std::io::Write;

fn arg<'a>(args: &'a [String], name: &str) -> Option<&'a str> {
    args.iter().position(|a| a == name).and_then(|i| args.get(i + 1)).map(|s| s.as_str())
}

fn main() {
    let args: Vec<String> = std::env::args().collect();
    if args.len() < 2 {
        eprintln!("usage: celconf <drive-eval|...> [options]");
        std::process::exit(2);
    }
    run::install_panic_hook();
    run::start_exec_monitor();
    let seed: u64 = arg(&args, "--seed").and_then(|s| s.parse().ok()).unwrap_or(1);
    let n: usize = arg(&args, "--n").and_then(|s| s.parse().ok()).unwrap_or(100);
    let depth: usize = arg(&args, "--depth").and_then(|s| s.parse().ok()).unwrap_or(0);
    let out_path = arg(&args, "--out").unwrap_or("/dev/stdout").to_string();
    match args[1].as_str() {
        "drive-eval" => {
            let profile = arg(&args, "--profile").unwrap_or("c03");
            let mut out = std::io::BufWriter::new(std::fs::File::create(&out_path).expect("open out"));
            let st = drive_eval::drive(profile, seed, n, depth, &mut out);
            out.flush().unwrap();
            eprintln!("drive-eval profile={} cases={} compile_fail={} panics={}", profile, st.cases, st.compile_fail, st.panics);
        }
        "drive-ops" => {
            let fam = arg(&args, "--family").unwrap_or("c08");
            let thorough = arg(&args, "--tier") == Some("thorough");
            let mut out = std::io::BufWriter::new(std::fs::File::create(&out_path).expect("open out"));
            let n = match fam {
                "c08" => drive_ops::drive_c08(seed, thorough, &mut out),
                "c09" => drive_ops::drive_c09(seed, thorough, &mut out),
                "cmp-table" => drive_ops::cmp_table(&mut out),
                "c14" => drive_ops::drive_c14(seed, thorough, &mut out),
                "rx" => drive_ops::drive_rx(seed, thorough, &mut out),
                "c02pairs" => drive_ops::drive_c02pairs(seed, thorough, &mut out),
                "c15" => drive_ops::drive_c15(seed, thorough, &mut out),
                "c16" => drive_ops::drive_c16(seed, thorough, &mut out),
                "c12" => drive_ops::drive_c12(seed, thorough, &mut out),
                "c13" => drive_ops::drive_c13(seed, thorough, &mut out),
                "c17" => drive_data::drive_c17(seed, thorough, &mut out),
                "c18" => drive_data::drive_c18(seed, thorough, &mut out),
                _ => panic!("unknown family"),
            };
            out.flush().unwrap();
            eprintln!("drive-ops family={} records={}", fam, n);
        }
        "ctx-vectors" => {
            let inp = arg(&args, "--in").expect("--in");
            let mut out = std::io::BufWriter::new(std::fs::File::create(&out_path).expect("open out"));
            let n = drive_ctx::replay_vectors(inp, &mut out);
            out.flush().unwrap();
            eprintln!("ctx-vectors sequences={}", n);
        }
        "ctx-random" => {
            let mut out = std::io::BufWriter::new(std::fs::File::create(&out_path).expect("open out"));
            let len: usize = arg(&args, "--len").and_then(|s| s.parse().ok()).unwrap_or(40);
            let k = drive_ctx::random_sequences(seed, n, len, &mut out);
            out.flush().unwrap();
            eprintln!("ctx-random sequences={}", k);
        }
        "replay-case" => {
            // re-run one recorded case (source text + context variables) against the current tree
            let path = arg(&args, "--case").expect("--case");
            let j: serde_json::Value = serde_json::from_str(&std::fs::read_to_string(path).expect("read case")).expect("json");
            let mut out = std::io::BufWriter::new(std::fs::File::create(&out_path).expect("open out"));
            if j.get("op").is_some() && j.get("a").is_some() && j.get("form").is_some() {
                // operator-application record
                let r = drive_ops::replay_op(&j).unwrap_or(j.clone());
                writeln!(out, "{}", r).unwrap();
                out.flush().unwrap();
                return;
            }
            if j.get("kind").is_some() && j.get("text").is_some() {
                // parser record: parse the text again
                let src = drive_parse::text_of(&j["text"]);
                let mut r = j.clone();
                let mut o = drive_parse::parse_outcome(&src);
                if j["out"].get("ast").is_none() {
                    if let Some(m) = o.as_object_mut() { m.remove("ast"); }
                }
                r["out"] = o;
                writeln!(out, "{}", r).unwrap();
                out.flush().unwrap();
                return;
            }
            if j.get("src").is_none() || j.get("vars").is_none() {
                // families that are not re-executable from the record alone: validate the record as stored
                writeln!(out, "{}", j).unwrap();
                out.flush().unwrap();
                return;
            }
            let src = j["src"].as_str().expect("src");
            let mut vars = vec![];
            if let Some(vs) = j["vars"].as_array() {
                for v in vs {
                    vars.push((v[0].as_str().unwrap().to_string(), enc::unvalue(&v[1]).expect("value")));
                }
            }
            let id = j["id"].as_u64().unwrap_or(1) as usize;
            match drive_eval::case_for(id, src, &vars) {
                Some(c) => writeln!(out, "{}", c).unwrap(),
                None => writeln!(out, "{}", serde_json::json!({"ev":"case","id":id,"src":src,"out":{"k":"compile_err"}})).unwrap(),
            }
            out.flush().unwrap();
        }
        "c02-table" => {
            let thorough = arg(&args, "--tier") == Some("thorough");
            let mut out = std::io::BufWriter::new(std::fs::File::create(&out_path).expect("open out"));
            let st = drive_eval::c02_table(seed, thorough, &mut out);
            out.flush().unwrap();
            eprintln!("c02-table cases={} compile_fail={} panics={}", st.cases, st.compile_fail, st.panics);
        }
        "c20-table" => {
            let thorough = arg(&args, "--tier") == Some("thorough");
            let mut out = std::io::BufWriter::new(std::fs::File::create(&out_path).expect("open out"));
            let st = drive_eval::c20_table(seed, thorough, &mut out);
            out.flush().unwrap();
            eprintln!("c20-table cases={} compile_fail={} panics={}", st.cases, st.compile_fail, st.panics);
        }
        "drive-refs" => {
            let mut out = std::io::BufWriter::new(std::fs::File::create(&out_path).expect("open out"));
            let k = drive_refs::drive(seed, n, if depth > 0 { depth } else { 5 }, &mut out);
            out.flush().unwrap();
            eprintln!("drive-refs cases={}", k);
        }
        "share-histories" => {
            let mut out = std::io::BufWriter::new(std::fs::File::create(&out_path).expect("open out"));
            let k = drive_share::histories(seed, n, &mut out);
            out.flush().unwrap();
            eprintln!("share-histories executions={}", k);
        }
        "share-threads" => {
            let mut out = std::io::BufWriter::new(std::fs::File::create(&out_path).expect("open out"));
            let threads: usize = arg(&args, "--threads").and_then(|s| s.parse().ok()).unwrap_or(4);
            let per: usize = arg(&args, "--per").and_then(|s| s.parse().ok()).unwrap_or(100);
            let k = drive_share::threads(seed, n, threads, per, &mut out);
            out.flush().unwrap();
            eprintln!("share-threads executions={}", k);
        }
        "parse-vectors" => {
            let inp = arg(&args, "--in").expect("--in");
            let mut out = std::io::BufWriter::new(std::fs::File::create(&out_path).expect("open out"));
            let k = drive_parse::parse_vectors(inp, &mut out);
            out.flush().unwrap();
            eprintln!("parse-vectors vectors={}", k);
        }
        "sentence-vectors" => {
            let inp = arg(&args, "--in").expect("--in");
            let mut out = std::io::BufWriter::new(std::fs::File::create(&out_path).expect("open out"));
            let k = drive_parse::sentence_vectors(inp, &mut out);
            out.flush().unwrap();
            eprintln!("sentence-vectors vectors={}", k);
        }
        "drive-parse" => {
            let fam = arg(&args, "--family").unwrap_or("c04");
            let thorough = arg(&args, "--tier") == Some("thorough");
            let mut out = std::io::BufWriter::new(std::fs::File::create(&out_path).expect("open out"));
            let k = if fam == "c01" { drive_parse::drive_c01(seed, thorough, &mut out) } else { drive_parse::drive_c04(seed, thorough, &mut out) };
            out.flush().unwrap();
            eprintln!("drive-parse family={} records={}", fam, k);
        }
        "run-vectors" => {
            // spec -> implementation: run every TLC-generated source text against the model's context
            let inp = arg(&args, "--in").expect("--in");
            let mut out = std::io::BufWriter::new(std::fs::File::create(&out_path).expect("open out"));
            let mut n = 0usize;
            let mut bad = 0usize;
            for (i, line) in std::fs::read_to_string(inp).expect("read").lines().enumerate() {
                if line.trim().is_empty() {
                    continue;
                }
                let j: serde_json::Value = serde_json::from_str(line).expect("vector json");
                let src = j["src"].as_str().expect("src");
                let vl: Vec<i64> = j["vl"].as_array().map(|a| a.iter().map(|x| x.as_i64().unwrap()).collect()).unwrap_or_else(|| vec![1, 0, 2]);
                let vars = drive_eval::env0(&vl);
                match drive_eval::case_for(i + 1, src, &vars) {
                    Some(mut c) => {
                        // the specification judges against the tree it built itself
                        let o = c.as_object_mut().unwrap();
                        o.remove("ast");
                        o.remove("vars");
                        o.insert("syms".to_string(), j["syms"].clone());
                        o.insert("vl".to_string(), serde_json::json!(vl));
                        writeln!(out, "{}", c).unwrap();
                        n += 1;
                    }
                    None => {
                        writeln!(out, "{}", serde_json::json!({"ev":"case","id":i + 1,"src":src,"syms":j["syms"],"vl":vl,"log":[],"out":{"k":"compile_err"}})).unwrap();
                        bad += 1;
                    }
                }
            }
            out.flush().unwrap();
            eprintln!("run-vectors cases={} not_compiled={}", n, bad);
        }
        "src" => {
            // run one source text with an empty context (debugging aid / replay)
            let src = arg(&args, "--src").expect("--src");
            match drive_eval::case_for(1, src, &[]) {
                Some(c) => println!("{}", c),
                None => println!("{{\"k\":\"compile_err\"}}"),
            }
        }
        other => {
            eprintln!("unknown command {}", other);
            std::process::exit(2);
        }
    }
}
