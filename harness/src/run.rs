//! Running the real implementation on one case and recording what happened.
use crate::enc;
use crate::zoo;
use cel_interpreter::{Context, Program, Value};
use serde_json::{json, Value as J};
use std::panic::{catch_unwind, AssertUnwindSafe};
use std::sync::Mutex;

static LAST_PANIC: Mutex<String> = Mutex::new(String::new());

pub fn install_panic_hook() {
    std::panic::set_hook(Box::new(|info| {
        let msg = if let Some(s) = info.payload().downcast_ref::<&str>() {
            s.to_string()
        } else if let Some(s) = info.payload().downcast_ref::<String>() {
            s.clone()
        } else {
            "panic".to_string()
        };
        let loc = info.location().map(|l| format!("{}:{}", l.file(), l.line())).unwrap_or_default();
        if let Ok(mut g) = LAST_PANIC.lock() {
            *g = format!("{} @ {}", msg, loc);
        }
    }));
}

pub fn last_panic() -> String {
    LAST_PANIC.lock().map(|g| g.clone()).unwrap_or_default()
}

pub enum Compiled {
    Ok(Program, J),
    Err(J),
    Panic(String),
}

/// Compile `src`; the AST is exported through the public parser (same entry point).
pub fn compile(src: &str) -> Compiled {
    let r = catch_unwind(AssertUnwindSafe(|| {
        let ast = cel_parser::Parser::new().parse(src);
        let prog = Program::compile(src);
        (ast, prog)
    }));
    match r {
        Err(_) => Compiled::Panic(last_panic()),
        Ok((Ok(ast), Ok(prog))) => Compiled::Ok(prog, enc::ast(&ast)),
        Ok((ast, prog)) => {
            let errs = match prog {
                Err(e) => e.errors.iter().map(|pe| json!({"line": pe.pos.0, "col": pe.pos.1, "msg": pe.msg, "text": format!("{}", pe)})).collect::<Vec<_>>(),
                Ok(_) => vec![],
            };
            Compiled::Err(json!({"k": "compile_err", "errors": errs, "parser_ok": ast.is_ok()}))
        }
    }
}

pub fn outcome(r: std::thread::Result<Result<Value, cel_interpreter::ExecutionError>>) -> J {
    match r {
        Err(_) => json!({"k": "panic", "msg": last_panic()}),
        Ok(Ok(v)) => json!({"k": "v", "v": enc::value(&v)}),
        Ok(Err(e)) => enc::error(&e),
    }
}

/// Execute a compiled program against a fresh default context holding `vars` and the zoo.
pub fn execute(prog: &Program, vars: &[(String, Value)], with_zoo: bool) -> (J, Vec<J>) {
    execute_with(prog, vars, with_zoo, &[])
}

/// As `execute`, additionally registering logging host functions under the given names AFTER the
/// defaults and the zoo (so they replace a built-in or zoo function of that name).
pub fn execute_with(prog: &Program, vars: &[(String, Value)], with_zoo: bool, overrides: &[String]) -> (J, Vec<J>) {
    let log = zoo::new_log();
    let r = catch_unwind(AssertUnwindSafe(|| {
        let mut ctx = Context::default();
        if with_zoo {
            zoo::register(&mut ctx, &log);
        }
        for o in overrides {
            zoo::register_override(&mut ctx, &log, o);
        }
        for (n, v) in vars {
            ctx.add_variable_from_value(n.clone(), v.clone());
        }
        prog.execute(&ctx)
    }));
    let l = log.lock().map(|g| g.clone()).unwrap_or_default();
    (outcome(r), l)
}

pub fn vars_json(vars: &[(String, Value)]) -> J {
    J::Array(vars.iter().map(|(n, v)| json!([n, enc::value(v)])).collect())
}
