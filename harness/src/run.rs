//! Running the real implementation on one case and recording what happened.
use crate::enc;
use crate::zoo;
use cel_interpreter::{Context, Program, Value};
use serde_json::{json, Value as J};
use std::panic::{catch_unwind, AssertUnwindSafe};
use std::sync::Mutex;

static LAST_PANIC: Mutex<String> = Mutex::new(String::new());

pub fn install_panic_hook() {
    std::panic::set_hook(Box::new(|info| {
        let msg = if let Some(s) = info.payload().downcast_ref::<&str>() {
            s.to_string()
        } else if let Some(s) = info.payload().downcast_ref::<String>() {
            s.clone()
        } else {
            "panic".to_string()
        };
        let loc = info.location().map(|l| format!("{}:{}", l.file(), l.line())).unwrap_or_default();
        if let Ok(mut g) = LAST_PANIC.lock() {
            *g = format!("{} @ {}", msg, loc);
        }
    }));
}

pub fn last_panic() -> String {
    LAST_PANIC.lock().map(|g| g.clone()).unwrap_or_default()
}

pub const WATCHDOG_SECS: u64 = 20;

/// (kept for the drivers' loops: the monitor below ends the process at the first call that does not return)
pub fn too_many_timeouts() -> bool {
    false
}

static LAST_SRC: Mutex<String> = Mutex::new(String::new());
static ARMED: Mutex<Option<(std::time::Instant, u64, &'static str, String)>> = Mutex::new(None);
pub const EXEC_SECS: u64 = 60;

/// Starts the monitor: if a guarded call into cel-rust (compile: WATCHDOG_SECS, execute: EXEC_SECS) does not return,
/// the process reports the source on stderr and exits with status 3; the caller turns that into a violation
/// (non-termination is behaviour to report, not a tool error).  No per-call thread: arming is one mutex write.
pub fn start_exec_monitor() {
    std::thread::spawn(|| loop {
        std::thread::sleep(std::time::Duration::from_millis(250));
        let hit = match ARMED.lock() {
            Ok(g) => g.as_ref().and_then(|(t0, limit, phase, src)| if t0.elapsed().as_secs() >= *limit { Some((*phase, *limit, src.clone())) } else { None }),
            Err(_) => None,
        };
        if let Some((phase, limit, src)) = hit {
            eprintln!("EXEC-TIMEOUT {}", serde_json::json!({"src": src, "secs": limit, "phase": phase}));
            std::process::exit(3);
        }
    });
}
pub fn arm(phase: &'static str, limit: u64, src: &str) {
    if let Ok(mut g) = ARMED.lock() {
        *g = Some((std::time::Instant::now(), limit, phase, src.to_string()));
    }
}
pub fn disarm() {
    if let Ok(mut g) = ARMED.lock() {
        *g = None;
    }
}

pub enum Compiled {
    Ok(Program, J),
    Err(J),
    Panic(String),
}

/// Compile `src`; the AST is exported through the public parser (same entry point).
pub fn compile(src: &str) -> Compiled {
    if let Ok(mut g) = LAST_SRC.lock() {
        *g = src.to_string();
    }
    arm("compile", WATCHDOG_SECS, src);
    let r = catch_unwind(AssertUnwindSafe(|| {
        let ast = cel_parser::Parser::new().parse(src);
        let prog = Program::compile(src);
        match (ast, prog) {
            (Ok(ast), Ok(prog)) => Ok((prog, enc::ast(&ast))),
            (ast, prog) => {
                let errs = match prog {
                    Err(e) => e.errors.iter().map(|pe| json!({"line": pe.pos.0, "col": pe.pos.1, "msg": pe.msg, "text": format!("{}", pe)})).collect::<Vec<_>>(),
                    Ok(_) => vec![],
                };
                Err(json!({"k": "compile_err", "errors": errs, "parser_ok": ast.is_ok()}))
            }
        }
    }));
    disarm();
    match r {
        Err(_) => Compiled::Panic(last_panic()),
        Ok(Ok((prog, ast))) => Compiled::Ok(prog, ast),
        Ok(Err(e)) => Compiled::Err(e),
    }
}

pub fn outcome(r: std::thread::Result<Result<Value, cel_interpreter::ExecutionError>>) -> J {
    match r {
        Err(_) => json!({"k": "panic", "msg": last_panic()}),
        Ok(Ok(v)) => json!({"k": "v", "v": enc::value(&v)}),
        Ok(Err(e)) => enc::error(&e),
    }
}

/// Execute a compiled program against a fresh default context holding `vars` and the zoo.
pub fn execute(prog: &Program, vars: &[(String, Value)], with_zoo: bool) -> (J, Vec<J>) {
    execute_with(prog, vars, with_zoo, &[])
}

/// As `execute`, additionally registering logging host functions under the given names AFTER the
/// defaults and the zoo (so they replace a built-in or zoo function of that name).
pub fn execute_with(prog: &Program, vars: &[(String, Value)], with_zoo: bool, overrides: &[String]) -> (J, Vec<J>) {
    let log = zoo::new_log();
    arm("execute", EXEC_SECS, &LAST_SRC.lock().map(|g| g.clone()).unwrap_or_default());
    let r = catch_unwind(AssertUnwindSafe(|| {
        let mut ctx = Context::default();
        if with_zoo {
            zoo::register(&mut ctx, &log);
        }
        for o in overrides {
            zoo::register_override(&mut ctx, &log, o);
        }
        for (n, v) in vars {
            ctx.add_variable_from_value(n.clone(), v.clone());
        }
        prog.execute(&ctx)
    }));
    disarm();
    let l = log.lock().map(|g| g.clone()).unwrap_or_default();
    (outcome(r), l)
}

pub fn vars_json(vars: &[(String, Value)]) -> J {
    J::Array(vars.iter().map(|(n, v)| json!([n, enc::value(v)])).collect())
}
