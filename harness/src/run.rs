//! Running the real implementation on one case and recording what happened.
use crate::enc;
use crate::zoo;
use cel_interpreter::{Context, Program, Value};
use serde_json::{json, Value as J};
use std::panic::{catch_unwind, AssertUnwindSafe};
use std::sync::Mutex;

static LAST_PANIC: Mutex<String> = Mutex::new(String::new());

pub fn install_panic_hook() {
    std::panic::set_hook(Box::new(|info| {
        let msg = if let Some(s) = info.payload().downcast_ref::<&str>() {
            s.to_string()
        } else if let Some(s) = info.payload().downcast_ref::<String>() {
            s.clone()
        } else {
            "panic".to_string()
        };
        let loc = info.location().map(|l| format!("{}:{}", l.file(), l.line())).unwrap_or_default();
        if let Ok(mut g) = LAST_PANIC.lock() {
            *g = format!("{} @ {}", msg, loc);
        }
    }));
}

pub fn last_panic() -> String {
    LAST_PANIC.lock().map(|g| g.clone()).unwrap_or_default()
}

static TIMEOUTS: std::sync::atomic::AtomicUsize = std::sync::atomic::AtomicUsize::new(0);
pub const WATCHDOG_SECS: u64 = 20;

/// Too many calls did not return: the drivers stop producing further cases (each abandoned call keeps a core busy).
pub fn too_many_timeouts() -> bool {
    TIMEOUTS.load(std::sync::atomic::Ordering::SeqCst) >= 3
}

/// Runs `f` on a thread of its own (large stack: deeply nested inputs) and waits up to WATCHDOG_SECS for it.
/// None = it did not return in time (the thread is abandoned).  Non-termination is behaviour to report, not a tool error.
pub fn watchdog<T: Send + 'static>(f: impl FnOnce() -> T + Send + 'static) -> Option<T> {
    let (tx, rx) = std::sync::mpsc::channel();
    let h = std::thread::Builder::new().stack_size(256 << 20).spawn(move || {
        let _ = tx.send(f());
    });
    if h.is_err() {
        return None;
    }
    match rx.recv_timeout(std::time::Duration::from_secs(WATCHDOG_SECS)) {
        Ok(v) => Some(v),
        Err(_) => {
            TIMEOUTS.fetch_add(1, std::sync::atomic::Ordering::SeqCst);
            None
        }
    }
}

static LAST_SRC: Mutex<String> = Mutex::new(String::new());
static ARMED: Mutex<Option<(std::time::Instant, String)>> = Mutex::new(None);
pub const EXEC_SECS: u64 = 60;

/// Starts the execution monitor: if a guarded execution does not return within EXEC_SECS the process reports the
/// source on stderr and exits with status 3 (the caller turns that into a violation: non-termination is behaviour).
pub fn start_exec_monitor() {
    std::thread::spawn(|| loop {
        std::thread::sleep(std::time::Duration::from_millis(250));
        let hit = match ARMED.lock() {
            Ok(g) => g.as_ref().and_then(|(t0, src)| if t0.elapsed().as_secs() >= EXEC_SECS { Some(src.clone()) } else { None }),
            Err(_) => None,
        };
        if let Some(src) = hit {
            eprintln!("EXEC-TIMEOUT {}", serde_json::json!({"src": src, "secs": EXEC_SECS}));
            std::process::exit(3);
        }
    });
}
fn arm(src: &str) {
    if let Ok(mut g) = ARMED.lock() {
        *g = Some((std::time::Instant::now(), src.to_string()));
    }
}
fn disarm() {
    if let Ok(mut g) = ARMED.lock() {
        *g = None;
    }
}

pub enum Compiled {
    Ok(Program, J),
    Err(J),
    Panic(String),
}

/// Compile `src`; the AST is exported through the public parser (same entry point).
pub fn compile(src: &str) -> Compiled {
    if let Ok(mut g) = LAST_SRC.lock() {
        *g = src.to_string();
    }
    let owned = src.to_string();
    // everything that is not Send (the parser's error values) is turned into JSON on the worker thread
    let r = watchdog(move || {
        catch_unwind(AssertUnwindSafe(|| {
            let ast = cel_parser::Parser::new().parse(&owned);
            let prog = Program::compile(&owned);
            match (ast, prog) {
                (Ok(ast), Ok(prog)) => Ok((prog, enc::ast(&ast))),
                (ast, prog) => {
                    let errs = match prog {
                        Err(e) => e.errors.iter().map(|pe| json!({"line": pe.pos.0, "col": pe.pos.1, "msg": pe.msg, "text": format!("{}", pe)})).collect::<Vec<_>>(),
                        Ok(_) => vec![],
                    };
                    Err(json!({"k": "compile_err", "errors": errs, "parser_ok": ast.is_ok()}))
                }
            }
        }))
    });
    match r {
        None => Compiled::Panic(format!("compile did not return within {} s", WATCHDOG_SECS)),
        Some(Err(_)) => Compiled::Panic(last_panic()),
        Some(Ok(Ok((prog, ast)))) => Compiled::Ok(prog, ast),
        Some(Ok(Err(e))) => Compiled::Err(e),
    }
}

pub fn outcome(r: std::thread::Result<Result<Value, cel_interpreter::ExecutionError>>) -> J {
    match r {
        Err(_) => json!({"k": "panic", "msg": last_panic()}),
        Ok(Ok(v)) => json!({"k": "v", "v": enc::value(&v)}),
        Ok(Err(e)) => enc::error(&e),
    }
}

/// Execute a compiled program against a fresh default context holding `vars` and the zoo.
pub fn execute(prog: &Program, vars: &[(String, Value)], with_zoo: bool) -> (J, Vec<J>) {
    execute_with(prog, vars, with_zoo, &[])
}

/// As `execute`, additionally registering logging host functions under the given names AFTER the
/// defaults and the zoo (so they replace a built-in or zoo function of that name).
pub fn execute_with(prog: &Program, vars: &[(String, Value)], with_zoo: bool, overrides: &[String]) -> (J, Vec<J>) {
    let log = zoo::new_log();
    arm(&LAST_SRC.lock().map(|g| g.clone()).unwrap_or_default());
    let r = catch_unwind(AssertUnwindSafe(|| {
        let mut ctx = Context::default();
        if with_zoo {
            zoo::register(&mut ctx, &log);
        }
        for o in overrides {
            zoo::register_override(&mut ctx, &log, o);
        }
        for (n, v) in vars {
            ctx.add_variable_from_value(n.clone(), v.clone());
        }
        prog.execute(&ctx)
    }));
    disarm();
    let l = log.lock().map(|g| g.clone()).unwrap_or_default();
    (outcome(r), l)
}

pub fn vars_json(vars: &[(String, Value)]) -> J {
    J::Array(vars.iter().map(|(n, v)| json!([n, enc::value(v)])).collect())
}
