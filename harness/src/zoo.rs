//! The host-function zoo: closures registered through the public `Context::add_function`
//! that record exactly what they received.  Their signatures and behaviours are mirrored by
//! `ZooSig` in spec/CelZoo.tla, so the specification can predict the ordered host-call log.
use crate::enc;
use cel_interpreter::extractors::{Arguments, Identifier, This};
use cel_interpreter::{Context, ExecutionError, Value};
use serde_json::{json, Value as J};
use std::sync::{Arc, Mutex};

pub type Log = Arc<Mutex<Vec<J>>>;

pub fn new_log() -> Log {
    Arc::new(Mutex::new(Vec::new()))
}

fn rec(log: &Log, f: &str, args: &[&Value]) {
    let a: Vec<J> = args.iter().map(|v| enc::value(v)).collect();
    log.lock().unwrap().push(json!({"f": f, "a": a}));
}

type R = Result<Value, ExecutionError>;

fn pack(args: &[&Value]) -> R {
    Ok(Value::List(Arc::new(args.iter().map(|v| (*v).clone()).collect())))
}

/// Registers every zoo function on a root context.
pub fn register(ctx: &mut Context, log: &Log) {
    let l = log.clone();
    ctx.add_function("t", move |tag: i64, v: Value| -> R {
        rec(&l, "t", &[&Value::Int(tag), &v]);
        Ok(v)
    });
    let l = log.clone();
    ctx.add_function("tb", move |tag: i64| -> R {
        rec(&l, "tb", &[&Value::Int(tag)]);
        Ok(Value::Bool(tag.rem_euclid(2) == 1))
    });
    let l = log.clone();
    ctx.add_function("fail", move |tag: i64| -> R {
        rec(&l, "fail", &[&Value::Int(tag)]);
        Err(ExecutionError::function_error("fail", "requested failure"))
    });
    let l = log.clone();
    ctx.add_function("h0", move || -> R {
        rec(&l, "h0", &[]);
        pack(&[])
    });
    let l = log.clone();
    ctx.add_function("h1", move |a: Value| -> R {
        rec(&l, "h1", &[&a]);
        pack(&[&a])
    });
    let l = log.clone();
    ctx.add_function("h2", move |a: Value, b: Value| -> R {
        rec(&l, "h2", &[&a, &b]);
        pack(&[&a, &b])
    });
    let l = log.clone();
    ctx.add_function("h3", move |a: Value, b: Value, c: Value| -> R {
        rec(&l, "h3", &[&a, &b, &c]);
        pack(&[&a, &b, &c])
    });
    let l = log.clone();
    ctx.add_function("h4", move |a: Value, b: Value, c: Value, d: Value| -> R {
        rec(&l, "h4", &[&a, &b, &c, &d]);
        pack(&[&a, &b, &c, &d])
    });
    let l = log.clone();
    ctx.add_function("h9", move |a: Value, b: Value, c: Value, d: Value, e: Value, f: Value, g: Value, h: Value, i: Value| -> R {
        rec(&l, "h9", &[&a, &b, &c, &d, &e, &f, &g, &h, &i]);
        pack(&[&a, &b, &c, &d, &e, &f, &g, &h, &i])
    });
    let l = log.clone();
    ctx.add_function("c0", move |_ftx: &cel_interpreter::FunctionContext| -> R {
        rec(&l, "c0", &[]);
        pack(&[])
    });
    let l = log.clone();
    ctx.add_function("c2", move |_ftx: &cel_interpreter::FunctionContext, a: Value, b: i64| -> R {
        let y = Value::Int(b);
        rec(&l, "c2", &[&a, &y]);
        pack(&[&a, &y])
    });
    let l = log.clone();
    ctx.add_function("mo", move |This(this): This<Value>, a: i64, b: Arc<String>| -> R {
        let (y, z) = (Value::Int(a), Value::String(b));
        rec(&l, "mo", &[&this, &y, &z]);
        pack(&[&this, &y, &z])
    });
    // the receiver is not the first parameter: in function style it is the argument at its own position
    let l = log.clone();
    ctx.add_function("rs", move |a: i64, This(this): This<Value>| -> R {
        let x = Value::Int(a);
        rec(&l, "rs", &[&x, &this]);
        pack(&[&x, &this])
    });
    let l = log.clone();
    ctx.add_function("mw", move |a: Arc<String>, This(this): This<i64>, b: Value| -> R {
        let (x, y) = (Value::String(a), Value::Int(this));
        rec(&l, "mw", &[&x, &y, &b]);
        pack(&[&x, &y, &b])
    });
    let l = log.clone();
    ctx.add_function("m0", move |This(this): This<Value>| -> R {
        rec(&l, "m0", &[&this]);
        pack(&[&this])
    });
    let l = log.clone();
    ctx.add_function("m1", move |This(this): This<Value>, a: Value| -> R {
        rec(&l, "m1", &[&this, &a]);
        pack(&[&this, &a])
    });
    let l = log.clone();
    ctx.add_function("m2", move |This(this): This<Value>, a: Value, b: Value| -> R {
        rec(&l, "m2", &[&this, &a, &b]);
        pack(&[&this, &a, &b])
    });
    let l = log.clone();
    ctx.add_function("m3", move |This(this): This<Value>, a: Value, b: Value, c: Value| -> R {
        rec(&l, "m3", &[&this, &a, &b, &c]);
        pack(&[&this, &a, &b, &c])
    });
    let l = log.clone();
    ctx.add_function("va", move |Arguments(args): Arguments| -> R {
        let v = Value::List(args.clone());
        rec(&l, "va", &[&v]);
        pack(&[&v])
    });
    let l = log.clone();
    ctx.add_function("idf", move |id: Identifier| -> R {
        let v = Value::String(id.0.clone());
        rec(&l, "idf", &[&v]);
        pack(&[&v])
    });
    // typed parameters
    let l = log.clone();
    ctx.add_function("fi", move |a: i64| -> R {
        let v = Value::Int(a);
        rec(&l, "fi", &[&v]);
        pack(&[&v])
    });
    let l = log.clone();
    ctx.add_function("fu", move |a: u64| -> R {
        let v = Value::UInt(a);
        rec(&l, "fu", &[&v]);
        pack(&[&v])
    });
    let l = log.clone();
    ctx.add_function("fd", move |a: f64| -> R {
        let v = Value::Float(a);
        rec(&l, "fd", &[&v]);
        pack(&[&v])
    });
    let l = log.clone();
    ctx.add_function("fs", move |a: Arc<String>| -> R {
        let v = Value::String(a);
        rec(&l, "fs", &[&v]);
        pack(&[&v])
    });
    let l = log.clone();
    ctx.add_function("fy", move |a: Arc<Vec<u8>>| -> R {
        let v = Value::Bytes(a);
        rec(&l, "fy", &[&v]);
        pack(&[&v])
    });
    let l = log.clone();
    ctx.add_function("fb", move |a: bool| -> R {
        let v = Value::Bool(a);
        rec(&l, "fb", &[&v]);
        pack(&[&v])
    });
    let l = log.clone();
    ctx.add_function("fl", move |a: Arc<Vec<Value>>| -> R {
        let v = Value::List(a);
        rec(&l, "fl", &[&v]);
        pack(&[&v])
    });
    let l = log.clone();
    ctx.add_function("fis", move |a: i64, b: Arc<String>| -> R {
        let (x, y) = (Value::Int(a), Value::String(b));
        rec(&l, "fis", &[&x, &y]);
        pack(&[&x, &y])
    });
    let l = log.clone();
    ctx.add_function("msi", move |This(this): This<Arc<String>>, a: i64| -> R {
        let (x, y) = (Value::String(this), Value::Int(a));
        rec(&l, "msi", &[&x, &y]);
        pack(&[&x, &y])
    });
}

/// Registers a logging host function under an arbitrary (e.g. a built-in's) name: one raw-value
/// parameter, returns the list of what it received.  Mirrors `ZO!H(<<A>>, "pack")`.
pub fn register_override(ctx: &mut Context, log: &Log, name: &str) {
    let l = log.clone();
    let n = name.to_string();
    ctx.add_function(name, move |a: Value| -> R {
        rec(&l, &n, &[&a]);
        pack(&[&a])
    });
}

/// Registers a variadic logging host function (all arguments, evaluated): `ZO!H(<<P("args","any")>>, "pack")`.
pub fn register_variadic(ctx: &mut Context, log: &Log, name: &str) {
    let l = log.clone();
    let n = name.to_string();
    ctx.add_function(name, move |Arguments(args): Arguments| -> R {
        let v = Value::List(args.clone());
        rec(&l, &n, &[&v]);
        pack(&[&v])
    });
}

pub const ZOO_NAMES: &[&str] = &[
    "t", "tb", "fail", "h0", "h1", "h2", "h3", "h4", "m0", "m1", "m2", "m3", "va", "idf", "fi", "fu", "fd",
    "fs", "fy", "fb", "fl", "fis", "msi", "h9", "c0", "c2", "mo", "rs", "mw",
];
