def main(argv):
    print("not built yet")
    return 2
