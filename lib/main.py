"""Entry point of ./check: setup, per-property checks, evidence, replay."""
import os, sys, json, time, subprocess, hashlib, traceback

ROOT = os.path.dirname(os.path.dirname(os.path.abspath(__file__)))
sys.path.insert(0, os.path.join(ROOT, "lib"))
import tlc as T

HARNESS = os.path.join(ROOT, "harness")
BIN = os.path.join(HARNESS, "target", "debug", "celconf")
WORK = os.path.join(ROOT, "work")
EVID = os.path.join(ROOT, "evidence")
REPLAYS = os.path.join(ROOT, "replays")
KF_FILE = os.path.join(ROOT, "known_findings.jsonl")

LEVELS = {}


def build_harness():
    env = dict(os.environ)
    env["CARGO_NET_OFFLINE"] = "true"
    p = subprocess.run(["cargo", "build", "--offline", "--quiet"], cwd=HARNESS, env=env, stdout=subprocess.PIPE,
                       stderr=subprocess.STDOUT, text=True)
    if p.returncode != 0:
        raise T.ToolError("harness build failed (is /repo's public API still what the harness uses?):\n" + p.stdout[-4000:])


class ExecHang(Exception):
    """The implementation did not return from an execution (reported by the harness's monitor, exit status 3)."""
    def __init__(self, case):
        Exception.__init__(self, "execution did not terminate")
        self.case = case


def celconf(args, timeout=3600, check=True):
    p = subprocess.run(["timeout", str(timeout), BIN] + [str(a) for a in args], cwd=ROOT, stdout=subprocess.PIPE,
                       stderr=subprocess.PIPE, text=True)
    if p.returncode == 3 and "EXEC-TIMEOUT" in p.stderr:
        line = [l for l in p.stderr.splitlines() if l.startswith("EXEC-TIMEOUT")][-1]
        try:
            case = json.loads(line[len("EXEC-TIMEOUT "):])
        except Exception:
            case = {"src": line}
        case["driver"] = [str(a) for a in args]
        raise ExecHang(case)
    if p.returncode == 124:
        raise T.ToolError("celconf timed out: %s" % args)
    if check and p.returncode != 0:
        raise T.ToolError("celconf failed (%d): %s\n%s" % (p.returncode, args, p.stderr[-3000:]))
    return p


def load_known():
    out = []
    if os.path.exists(KF_FILE):
        for line in open(KF_FILE):
            line = line.strip()
            if line:
                out.append(json.loads(line))
    return out


class Run:
    """Accumulates what one check covered and found."""

    def __init__(self, prop, tier, seed):
        self.prop, self.tier, self.seed = prop, tier, seed
        self.t0 = time.time()
        self.evaluations = 0
        self.nontrivial = set()
        self.samples = []
        self.states = 0
        self.transitions = 0
        self.traces = 0
        self.violations = []
        self.known_hits = {}
        self.assumptions = []
        self.extra = {}
        self.exhaustive = False
        self.rule = ""
        self.level = "model_checking"
        self.known = [k for k in load_known() if k.get("status") == "open" and prop in k.get("property", [])]
        os.makedirs(WORK, exist_ok=True)
        # replay files of an earlier run of the same check / tier / seed would be mistaken for this run's
        d = os.path.join(REPLAYS, prop)
        if os.path.isdir(d):
            for f in os.listdir(d):
                if f.startswith("case_%s_%d_" % (tier, seed)):
                    os.remove(os.path.join(d, f))

    def q(self, quick, thorough):
        return quick if self.tier == "quick" else thorough

    def work(self, name):
        d = os.path.join(WORK, self.prop)
        os.makedirs(d, exist_ok=True)
        return os.path.join(d, name)

    def add_tlc(self, r):
        self.states += r.distinct
        self.transitions += r.generated

    def note_case(self, key, nontrivial=True):
        self.evaluations += 1
        if nontrivial:
            self.nontrivial.add(hashlib.sha1(key.encode()).hexdigest()[:16])

    def sample(self, s):
        if len(self.samples) < 6:
            self.samples.append(s)

    def known_finding(self, kfid, case, reason):
        """The specification explains this case only by the known-finding action `kfid`.  Listed (open, for this
        property) => KNOWN-FINDING line, once; not listed => an ordinary violation."""
        for k in self.known:
            if k["id"] == kfid:
                if kfid not in self.known_hits:
                    self.known_hits[kfid] = k
                    print("KNOWN-FINDING: property=%s %s %s" % (self.prop, kfid, k.get("what", "")))
                self.extra["known_finding_cases"] = self.extra.get("known_finding_cases", 0) + 1
                return
        self.violation(case, reason + " (matches the unlisted finding pattern %s)" % kfid)

    def violation(self, case, reason):
        """Record a violation: writes the replay file and prints the VIOLATION line."""
        for k in self.known:
            if finding_matches(k, case, reason):
                if k["id"] not in self.known_hits:
                    self.known_hits[k["id"]] = k
                    print("KNOWN-FINDING: property=%s %s %s" % (self.prop, k["id"], k.get("what", "")))
                return
        d = os.path.join(REPLAYS, self.prop)
        os.makedirs(d, exist_ok=True)
        n = len(self.violations) + 1
        path = os.path.join(d, "case_%s_%d_%d.json" % (self.tier, self.seed, n))
        json.dump({"property": self.prop, "seed": self.seed, "tier": self.tier, "reason": reason, "case": case},
                  open(path, "w"), indent=1)
        self.violations.append(path)
        if len(self.violations) <= 20:
            print("VIOLATION property=%s replay=%s" % (self.prop, path))
            print("  reason: %s" % reason[:300])
            sys.stdout.flush()

    def finish(self, write_evidence=True):
        ev = {
            "property_id": self.prop,
            "tier": self.tier,
            "seed": self.seed,
            "level": self.level,
            "coverage": {
                "evaluations": self.evaluations,
                "distinct_nontrivial": len(self.nontrivial),
                "rule": self.rule,
                "samples": self.samples or ["(none)"],
                "states": self.states,
                "transitions": self.transitions,
                "traces_validated_against_impl": self.traces,
                "exhaustive": self.exhaustive,
                "checker_cmd": "tlc (TLC 1.8.0) on spec/*.tla via ./check %s --tier %s" % (self.prop, self.tier),
                "trusted_base": ["TLC 1.8.0 + CommunityModules (Json, IOUtils)", "the harness encoder (harness/src/enc.rs)", "rustc/cargo"],
                "known_findings_hit": sorted(self.known_hits.keys()),
            },
            "assumptions": self.assumptions,
            "wall_s": round(time.time() - self.t0, 2),
            "violations": len(self.violations),
        }
        if self.level == "translation_validation":
            ev["coverage"]["programs"] = self.evaluations
            ev["coverage"]["disagreements_checked"] = len(self.violations) + len(self.known_hits)
        ev["coverage"].update(self.extra)
        if write_evidence:
            os.makedirs(EVID, exist_ok=True)
            json.dump(ev, open(os.path.join(EVID, self.prop + ".json"), "w"), indent=1)
        for k in self.known:
            if k["id"] not in self.known_hits:
                print("KNOWN-FINDING-STALE: property=%s %s did not reproduce in this run" % (self.prop, k["id"]))
        print("%s %s: %d evaluations, %d distinct non-trivial, %d states, %d traces/vectors validated, %d violation(s), %.1fs" % (
            self.prop, self.tier, self.evaluations, len(self.nontrivial), self.states, self.traces, len(self.violations), time.time() - self.t0))
        return 1 if self.violations else 0


def finding_matches(k, case, reason):
    """A known finding lists literal conditions on the failing case (see known_findings.jsonl)."""
    m = k.get("match", {})
    blob = json.dumps(case, sort_keys=True) if not isinstance(case, str) else case
    if "reason_contains" in m and m["reason_contains"] not in reason:
        return False
    for s in m.get("case_contains", []):
        if s not in blob:
            return False
    if "src_regex" in m:
        import re
        src = case.get("src", "") if isinstance(case, dict) else ""
        if not re.search(m["src_regex"], src):
            return False
    return bool(m)


def setup():
    build_harness()
    bad = []
    for f in sorted(os.listdir(T.SPEC)):
        if f.endswith(".tla"):
            ok, out = T.sany(f[:-4])
            if not ok:
                bad.append((f, out[-1500:]))
    if bad:
        for f, o in bad:
            sys.stderr.write("SANY failed on %s\n%s\n" % (f, o))
        return 2
    print("setup ok: harness built, %d modules parsed" % len([f for f in os.listdir(T.SPEC) if f.endswith('.tla')]))
    return 0


def main(argv):
    if not argv:
        print("usage: ./check --setup | ./check <ID> [--tier quick|thorough] [--seed N] [--replay file]")
        return 2
    if argv[0] == "--setup":
        try:
            return setup()
        except T.ToolError as e:
            sys.stderr.write(str(e) + "\n")
            return 2
    prop = argv[0]
    tier = os.environ.get("VERIF_TIER", "quick")
    seed = int(os.environ.get("VERIF_SEED", "1"))
    replay = None
    i = 1
    while i < len(argv):
        if argv[i] == "--tier":
            tier = argv[i + 1]; i += 2
        elif argv[i] == "--seed":
            seed = int(argv[i + 1]); i += 2
        elif argv[i] == "--replay":
            replay = argv[i + 1]; i += 2
        else:
            i += 1
    import props
    if prop not in props.CHECKS:
        sys.stderr.write("no check for %s\n" % prop)
        return 2
    try:
        build_harness()
        if replay:
            return props.replay(prop, replay)
        run = Run(prop, tier, seed)
        try:
            props.CHECKS[prop](run)
        except ExecHang as h:
            run.violation(h.case, "cel-rust did not return from %s within the harness's limit: non-termination (a value or an error is required)" % h.case.get("phase", "a call"))
        return run.finish()
    except T.ToolError as e:
        sys.stderr.write("TOOL ERROR: %s\n" % e)
        return 2
    except Exception:
        traceback.print_exc()
        return 2
