"""Per-property pipelines: model check -> emit vectors -> replay -> drive -> validate."""
import os, sys, json
import tlc as T
from main import celconf, Run, ROOT

CHECKS = {}


def check(pid):
    def deco(f):
        CHECKS[pid] = f
        return f
    return deco


# ----------------------------------------------------------------------------------------------
# generic helpers

def read_ndjson(path):
    out = []
    with open(path) as f:
        for line in f:
            line = line.strip()
            if line:
                out.append(json.loads(line))
    return out


def split_file(path, chunk):
    """Split an ndjson file into chunks of at most `chunk` lines; returns list of paths."""
    paths, buf, k = [], [], 0
    with open(path) as f:
        for line in f:
            buf.append(line)
            if len(buf) >= chunk:
                p = "%s.part%d" % (path, k)
                open(p, "w").writelines(buf)
                paths.append(p)
                buf, k = [], k + 1
    if buf:
        p = "%s.part%d" % (path, k)
        open(p, "w").writelines(buf)
        paths.append(p)
    return paths


def validate_trace(run, module, path, nontrivial=None, what="no behaviour of the specification explains the recorded case",
                   chunk=None, timeout=3000, env=None, sample_key=None, jobs=8):
    """Validate an ndjson trace (one record per case) against spec/<module>; rejected ids -> violations.
    The file is cut into chunks validated by parallel single-worker TLC processes."""
    from concurrent.futures import ThreadPoolExecutor
    nlines = sum(1 for _ in open(path))
    if nlines == 0:
        raise T.ToolError("empty trace %s" % path)
    if chunk is None:
        chunk = max(200, min(4000, (nlines + jobs - 1) // jobs))
    parts = split_file(path, chunk)

    def one(ip):
        i, part = ip
        e = {"TRACE": part}
        if env:
            e.update(env)
        return T.run_tlc(module, env=e, workers=1, timeout=timeout, tag="%s_%s_%d" % (run.prop, module, i), xmx="3g")

    with ThreadPoolExecutor(max_workers=jobs) as ex:
        results = list(ex.map(one, list(enumerate(parts))))
    total_bad = 0
    for part, r in zip(parts, results):
        cases = read_ndjson(part)
        run.add_tlc(r)
        if r.violation:
            raise T.ToolError("trace spec %s reported %s (a fault of the specification, not of cel-rust)" % (module, r.violation))
        if not r.results:
            raise T.ToolError("trace spec %s printed no RESULT:\n%s" % (module, "\n".join(r.stdout.splitlines()[-25:])))
        res = r.results[-1]
        if res.get("cases") != len(cases):
            raise T.ToolError("trace spec %s consumed %s of %d cases" % (module, res.get("cases"), len(cases)))
        bad = set(res.get("bad", []))
        kfhits = {int(x[0]): x[1] for x in res.get("kf", [])}
        run.extra["outside_pinned_semantics"] = run.extra.get("outside_pinned_semantics", 0) + res.get("dev", 0)
        for c in cases:
            if "a" in c and "op" in c:
                key = json.dumps([c.get("op"), c.get("form"), c.get("a"), c.get("b")], sort_keys=True)
            else:
                key = json.dumps(c.get("src", c), sort_keys=True) + json.dumps(c.get("vars", c.get("vl", "")), sort_keys=True)
            nt = True if nontrivial is None else bool(nontrivial(c))
            run.note_case(key, nt)
            if c["id"] in bad:
                run.violation(c, what)
            elif c["id"] in kfhits:
                run.known_finding(kfhits[c["id"]], c, what)
            else:
                run.traces += 1
                if nt:
                    run.sample(sample_key(c) if sample_key else summarize_case(c))
        total_bad += len(bad)
        os.remove(part)
    return total_bad


def summarize_case(c):
    out = c.get("out", {})
    s = {"src": c.get("src"), "log_len": len(c.get("log", [])), "outcome": out.get("k"), "class": out.get("c")}
    return s


def drive_eval(run, profile, n, depth=0, seed=None, extra=None):
    seed = run.seed if seed is None else seed
    path = run.work("eval_%s_%d.ndjson" % (profile, seed))
    args = ["drive-eval", "--profile", profile, "--n", n, "--seed", seed, "--out", path]
    if depth:
        args += ["--depth", depth]
    if extra:
        args += extra
    p = celconf(args)
    return path


def model_check(run, module, cfg=None, workers=12, timeout=3000, required_actions=None, expect_violation=False, env=None, tag=None):
    r = T.run_tlc(module, cfg=cfg, workers=workers, timeout=timeout, coverage=bool(required_actions), deque=False, env=env,
                  tag=tag or (run.prop + "_" + (cfg or module)))
    run.add_tlc(r)
    if expect_violation:
        if not r.violation:
            raise T.ToolError("negative model %s/%s was expected to violate its invariant but did not (vacuous invariant?)" % (module, cfg))
        return r
    if r.violation:
        raise T.ToolError("model %s/%s: %s -- a fault of the specification, not of cel-rust\n%s" % (
            module, cfg, r.violation, "\n".join(r.stdout.splitlines()[-40:])))
    if required_actions:
        missing = [a for a in required_actions if r.coverage.get(a, 0) == 0]
        if missing:
            raise T.ToolError("vacuity guard: actions never taken in %s/%s: %s" % (module, cfg, missing))
    return r


def mc_vectors(run, cfg, module="CelEvalMC", trace_module="CelEvalTrace", workers=12, timeout=3000, nontrivial=None, required_actions=None, max_replay=250000):
    """Model-check spec/<module> under <cfg>.cfg (invariants relate the abstract machine to the declarative
    denotation on every program the model builds), then replay every generated program against the
    implementation and validate what it did (spec -> implementation)."""
    r = model_check(run, module, cfg=cfg, workers=workers, timeout=timeout, required_actions=required_actions)
    if not r.vecs:
        raise T.ToolError("model %s produced no vectors" % cfg)
    vecs = r.vecs
    if len(vecs) > max_replay:
        # the model itself was checked exhaustively; replay a seeded, evenly spread sample of its programs
        import random
        rnd = random.Random(run.seed)
        vecs = rnd.sample(vecs, max_replay)
    vec = run.work(cfg + ".vectors.ndjson")
    with open(vec, "w") as f:
        for v in vecs:
            f.write(v + "\n")
    out = run.work(cfg + ".cases.ndjson")
    celconf(["run-vectors", "--in", vec, "--out", out])
    run.extra.setdefault("models", []).append({"cfg": cfg, "distinct_states": r.distinct, "programs": len(r.vecs), "programs_replayed": len(vecs)})
    validate_trace(run, trace_module, out, nontrivial=nontrivial,
                   what="generated program: implementation behaviour is not a behaviour of the specification")
    return r


def replay(prop, path):
    """Re-run a stored violation against the current tree and validate it again."""
    d = json.load(open(path))
    case = d["case"]
    run = Run(prop, "quick", d.get("seed", 1))
    run.rule = "replay of one stored case"
    tmp = run.work("replay_in.json")
    json.dump(case, open(tmp, "w"))
    out = run.work("replay_out.ndjson")
    celconf(["replay-case", "--case", tmp, "--out", out])
    if "refs" in case:
        module = "CelRefsTrace"
    elif "ops" in case and "obs" in case:
        module = "CelContextTrace"
    elif case.get("op") in ("ser", "serjson", "json"):
        module = "CelDataTrace"
    elif "op" in case and "a" in case:
        module = "CelOpTrace"
    elif "kind" in case:
        module = "CelParseTrace"
    elif "n" in case and "ia" in case:
        module = "CelCmpLaws"
    else:
        module = "CelEvalTrace"
    if module == "CelCmpLaws":
        print("this record is one row of the observed relation table; run the full check to re-evaluate it")
        return 0
    validate_trace(run, module, out, jobs=1)
    return run.finish(write_evidence=False)


REPLAY_MODULE = {"eval": "CelEvalTrace"}

# ----------------------------------------------------------------------------------------------
# C06


def has_log(c):
    return len(c.get("log", [])) > 0 or c.get("out", {}).get("k") == "e"


@check("C06")
def c06(run):
    run.rule = ("model: all programs over {&&,||,?:} with bounded operators built inside TLC, invariants OnlyNeeded/ResultMatchesDen; "
                "impl->spec: seeded random nestings (depth<=4) of the three operators over bool constants, error-raising leaves, "
                "logging host calls, also inside macro bodies and host-call arguments; a case is non-trivial if it logs a host call or raises")
    mc_vectors(run, run.q("CelEvalMC_C06", "CelEvalMC_C06_thorough"), nontrivial=has_log)
    mc_vectors(run, run.q("CelEvalMC_C06_macroq", "CelEvalMC_C06_macro"), nontrivial=has_log)
    run.exhaustive = True
    path = drive_eval(run, "c06", run.q(1500, 40000))
    validate_trace(run, "CelEvalTrace", path, nontrivial=has_log)


@check("C07")
def c07(run):
    run.rule = ("impl->spec: seeded random programs (depth<=5..10) in which most leaves and calls are wrapped by the logging function t(tag, e); "
                "the ordered host-call log must equal the specification's; non-trivial = at least two logged calls")
    mc_vectors(run, "CelEvalMC_C07", nontrivial=lambda c: len(c.get("log", [])) >= 2)
    run.exhaustive = True
    path = drive_eval(run, "c07", run.q(1500, 40000), depth=run.q(5, 8))
    validate_trace(run, "CelEvalTrace", path, nontrivial=lambda c: len(c.get("log", [])) >= 2)


@check("C10")
def c10(run):
    run.rule = ("impl->spec: seeded random macro programs over lists and maps with logging / erroring bodies; non-trivial = contains a comprehension")
    mc_vectors(run, "CelEvalMC_C10")
    mc_vectors(run, "CelEvalMC_C10_maps")
    mc_vectors(run, "CelEvalMC_C10_err")         # quantifiers whose bodies log / fail, over every list up to 3 of {0, 1, 2}: the first error aborts, later elements are not visited
    if run.tier == "thorough":
        mc_vectors(run, "CelEvalMC_C10_lists")
        mc_vectors(run, "CelEvalMC_C10_chain")      # macros chained on macros (<= 3 operators) with logging / erroring compound leaves
    run.exhaustive = True
    path = drive_eval(run, "c10", run.q(1500, 40000))
    validate_trace(run, "CelEvalTrace", path, nontrivial=lambda c: '"comp"' in json.dumps(c.get("ast")))


@check("C03")
def c03(run):
    run.level = "translation_validation"
    run.rule = ("impl->spec: seeded random well-typed programs of the core fragment (depth<=6), boundary-biased literals, generated context; "
                "value or error class and host log must equal the specification's; non-trivial = at least 3 AST nodes")
    mc_vectors(run, "CelEvalMC_C03_arith")
    mc_vectors(run, "CelEvalMC_C03_core")
    run.exhaustive = True
    path = drive_eval(run, "c03", run.q(1800, 60000), depth=run.q(5, 6))
    validate_trace(run, "CelEvalTrace", path, nontrivial=lambda c: json.dumps(c.get("ast")).count('"k"') >= 3)
    # the standard function `matches`: CelRegex is first checked against an independent denotational reading of the
    # same syntax (all patterns up to 5 code points of a 13-token alphabet x all words up to 3 over {a, b}), then the
    # implementation's answers for every token string up to 3/4 tokens and a pool of longer patterns are validated
    model_check(run, "CelRegexMC", workers=run.q(4, 12))
    path = drive_ops(run, "rx")
    validate_trace(run, "CelOpTrace", path, sample_key=op_sample, nontrivial=lambda c: True,
                   what="matches: the answers for one pattern over the text table differ from CelRegex")


# ----------------------------------------------------------------------------------------------
# operator-application families (C08, C09, C14)

def drive_ops(run, family):
    path = run.work("ops_%s_%d.ndjson" % (family, run.seed))
    celconf(["drive-ops", "--family", family, "--seed", run.seed, "--tier", run.tier, "--out", path])
    return path


def op_sample(c):
    return {"op": c.get("op"), "form": c.get("form"), "src": c.get("src"), "a": c.get("a"), "b": c.get("b"), "out": c.get("out")}


@check("C08")
def c08(run):
    run.rule = ("model: every pair of 6-bit signed and unsigned values (all 4096+4096) and every pair of a 64-bit boundary set, "
                "invariants AgreesWithNative / Laws on Num64; impl->spec: every ordered pair of the i64 and u64 boundary sets under "
                "+ - * / % and unary minus, spelled as literals, as context variables and through the host-side operators, mixed kinds, "
                "random uniform and log-uniform pairs; a case is non-trivial unless both operands are 0 or 1")
    model_check(run, "Num64MC", cfg=run.q("Num64MC_q", "Num64MC"), workers=1)
    run.exhaustive = True
    path = drive_ops(run, "c08")

    def nt(c):
        small = lambda v: v.get("t") in ("int", "uint") and v["n"]["m"] in ([], [1])
        return not (small(c["a"]) and small(c["b"]))
    validate_trace(run, "CelOpTrace", path, nontrivial=nt, sample_key=op_sample,
                   what="operator application: outcome differs from the exact-or-error semantics of Num64")


@check("C09")
def c09(run):
    run.rule = ("model: Eq/Cmp of the specification over a 55-value boundary pool, all pairs (quick) and all triples (thorough), laws as invariants; "
                "impl->spec: the implementation's complete observed table of the six relations over an ~90-value pool (every ordered pair) is checked "
                "cell by cell against Cmp/Eq and, independently, against the coherence laws themselves (CelCmpLaws); plus in, min, max, host-side eq/partial_cmp; "
                "non-trivial = operands of different kinds or numerically close")
    model_check(run, "CelCmpMC", cfg=run.q("CelCmpMC_q", "CelCmpMC"), workers=1)
    run.exhaustive = True
    tab = run.work("cmp_table.ndjson")
    celconf(["drive-ops", "--family", "cmp-table", "--out", tab])
    validate_trace(run, "CelCmpLaws", tab, chunk=1000000, jobs=1, sample_key=lambda c: {k: c[k] for k in ("a", "b", "eq", "ne", "lt", "le", "gt", "ge")},
                   nontrivial=lambda c: c["a"]["t"] != c["b"]["t"] or c["ia"] != c["ib"],
                   what="observed relation table violates a coherence law of C09 (see the record: outcomes T/F/E/P of == != < <= > >=)")
    path = drive_ops(run, "c09")
    validate_trace(run, "CelOpTrace", path, sample_key=op_sample,
                   nontrivial=lambda c: c["a"]["t"] != c["b"].get("t") or c["a"] != c["b"],
                   what="relation / membership / min / max outcome differs from the exact semantics of CelValue!Cmp / Eq")


@check("C14")
def c14(run):
    run.rule = ("model: CelMapMC -- every key-insertion sequence up to 4 keys over the 8-key alphabet and every query key (twins included): the query forms are "
                "functions of one HasKey, literals keep exactly the written entries, list indexing in/out of range, additivity of size; "
                "impl->spec: every map with <=4 distinct keys of the alphabet (quick: all with <=2, half of the rest) x 16 query keys x the query forms "
                "k in m, m.contains(k), m[k], m.k, has(m.k) as variables and as literals; every list of length <=5 x every index in -2..len+1 and the i64 extremes; "
                "random strings/lists for the additive laws; non-trivial = the map or list is non-empty")
    model_check(run, "CelMapMC", workers=1)
    run.exhaustive = True
    path = drive_ops(run, "c14")
    validate_trace(run, "CelOpTrace", path, sample_key=op_sample,
                   nontrivial=lambda c: bool(c["a"].get("e") or c["b"].get("e")),
                   what="map / list / string operation disagrees with the specification (all query forms are defined from one HasKey)")
    # whole programs: + with shared / temporary operands, chained and nested; function-named keys; random collection-heavy programs
    path = drive_eval(run, "c14", run.q(600, 20000))
    validate_trace(run, "CelEvalTrace", path, nontrivial=lambda c: json.dumps(c.get("ast")).count('"k"') >= 3)


# ----------------------------------------------------------------------------------------------
# C11

@check("C11")
def c11(run):
    run.rule = ("model: CelContext state graph (2 names quick / 3 names thorough, 2 values, 3 levels) with InnermostWins, ParentsFrozen, CloseRestores, "
                "NamespacesDisjoint; spec->impl: EVERY transition of that graph replayed on a real Context from a shortest path (transition coverage), "
                "all lookups (variable and function namespace) compared after every operation and while scopes are dropped; impl->spec: random operation "
                "sequences up to length 200; macro scoping: all programs nesting up to 3 macros over a name pool that also names context variables "
                "(CelEvalMC_C11, invariants ScopeDiscipline/ScopesClosed) replayed, plus random programs with clashing names; non-trivial = at least one open or redefinition")
    r = model_check(run, "CelContextMC", cfg=run.q("CelContextMC_q", "CelContextMC"), workers=1, timeout=3000)
    vec = run.work("ctx_vectors.ndjson")
    with open(vec, "w") as f:
        for v in r.vecs:
            f.write(v + "\n")
    cases = run.work("ctx_cases.ndjson")
    celconf(["ctx-vectors", "--in", vec, "--out", cases])
    run.extra["context_graph"] = {"distinct_states": r.distinct, "transitions_replayed": len(r.vecs)}
    nt = lambda c: any(o["op"] == "open" for o in c["ops"]) or len({o["n"] for o in c["ops"] if o["op"] == "define"}) < sum(1 for o in c["ops"] if o["op"] == "define")
    sk = lambda c: {"ops": [(o["op"], o["n"], o["v"]) for o in c["ops"]], "last_obs": c["obs"][-1] if c["obs"] else None}
    validate_trace(run, "CelContextTrace", cases, nontrivial=nt, sample_key=sk,
                   what="context history: a lookup observed on the real Context differs from the CelContext model")
    rnd = run.work("ctx_random.ndjson")
    celconf(["ctx-random", "--seed", run.seed, "--n", run.q(1000, 30000), "--len", run.q(40, 200), "--out", rnd])
    validate_trace(run, "CelContextTrace", rnd, nontrivial=nt, sample_key=sk,
                   what="context history: a lookup observed on the real Context differs from the CelContext model")
    run.exhaustive = True
    mc_vectors(run, run.q("CelEvalMC_C11", "CelEvalMC_C11_thorough"), nontrivial=lambda c: True)
    path = drive_eval(run, "c11", run.q(1500, 30000))
    validate_trace(run, "CelEvalTrace", path, nontrivial=lambda c: '"comp"' in json.dumps(c.get("ast")))


@check("C02")
def c02(run):
    run.rule = ("model: every program with <=2 operators over one representative leaf of each value kind and every operator family (ill-typed included): "
                "NoStuck (a rule yields a value or an error class for every operator x operand-kind combination), Bounded, machine = denotation; each generated "
                "program replayed; impl->spec: seeded untyped programs (depth<=6..8) over every operator, macro, built-in, literal form, message literals, "
                "host functions, against contexts holding i64/u64 extremes, NaN/inf, non-ASCII text, nested collections, durations/timestamps at chrono's limits, "
                "function values; a kind table: ~80 unary and ~40 binary program forms (every operator, built-in, macro, zoo signature) applied to every (pair of) "
                "pool value(s) covering each kind and its extremes, malformed duration/number/regex strings included; plus every ordered pair of a ~110-value pool under the host-side + - * / % == partial_cmp. A panic or time-out is never a "
                "behaviour of the specification; non-trivial = not a bare leaf")
    mc_vectors(run, "CelEvalMC_C02")
    run.exhaustive = True
    path = drive_eval(run, "c02", run.q(2500, 120000), depth=run.q(6, 8))
    validate_trace(run, "CelEvalTrace", path, nontrivial=lambda c: c.get("ast", {}).get("k") not in ("lit", "id"))
    table = run.work("c02_table.ndjson")
    celconf(["c02-table", "--seed", run.seed, "--tier", run.tier, "--out", table])
    validate_trace(run, "CelEvalTrace", table, nontrivial=lambda c: True,
                   what="kind table (every operator / built-in / macro form x every pair of value kinds): panic, or outcome outside the specification")
    pairs = drive_ops(run, "c02pairs")
    validate_trace(run, "CelOpTrace", pairs, sample_key=op_sample, nontrivial=lambda c: c["a"]["t"] != c["b"].get("t"),
                   what="host-side operator on two values: panic, or an outcome the value-level semantics does not allow")


@check("C20")
def c20(run):
    run.rule = ("model: all programs with <=2 call nodes over typed host signatures, both call styles and 0..arity+1 arguments: the handler is invoked "
                "(log entry) iff every extraction succeeds, with the converted values in order (machine = denotation); impl->spec: every zoo signature "
                "(arity 0-9; raw, typed, receiver, all-arguments, identifier, with FunctionContext) x 0..arity+2 arguments x matching / one-mismatching kinds "
                "x both styles; every receiver-style built-in x receivers and arguments of 11 kinds with x.f(a) and f(x, a) recorded side by side (must be equal); "
                "built-ins overridden by host functions; non-trivial = has at least one argument or receiver")
    mc_vectors(run, "CelEvalMC_C20")
    run.exhaustive = True
    table = run.work("c20_table.ndjson")
    celconf(["c20-table", "--seed", run.seed, "--tier", run.tier, "--out", table])
    validate_trace(run, "CelEvalTrace", table, nontrivial=lambda c: "()" not in c["src"],
                   sample_key=lambda c: {"src": c["src"], "twin": c.get("twin", {}).get("src"), "log": c["log"], "out": c["out"].get("k"), "overrides": c.get("overrides")},
                   what="call binding: what the host function received / the outcome differs from the specification (or x.f(a) differs from f(x, a))")
    path = drive_eval(run, "c07", run.q(800, 20000), depth=run.q(4, 6))
    validate_trace(run, "CelEvalTrace", path, nontrivial=lambda c: len(c.get("log", [])) >= 1)


@check("C19")
def c19(run):
    run.rule = ("model: all programs with <=2 operators with names in every position (operands, receivers, arguments, indices, list elements, map keys/values, "
                "has(), macro ranges and bodies, undeclared names): invariant LookedUpSubsetRefs (every name the machine looks up occurs in the source; an undeclared "
                "outcome names something looked up); impl->spec: seeded untyped programs (depth<=5..7) over random identifier and function names, each run against 4 "
                "contexts (one defining exactly the reported names); CelRefsTrace checks looked(spec run) subset-of R, the four observable clauses, and each run as an "
                "ordinary evaluation; non-trivial = some run ends in an undeclared reference or the program reports at least 2 names")
    mc_vectors(run, "CelEvalMC_C19")
    run.exhaustive = True
    path = run.work("refs.ndjson")
    celconf(["drive-refs", "--seed", run.seed, "--n", run.q(2500, 60000), "--depth", run.q(5, 7), "--out", path])
    nt = lambda c: any(r["out"].get("c") == "undeclared" for r in c["runs"]) or len(c["refs"]["vars"]) + len(c["refs"]["fns"]) >= 2
    validate_trace(run, "CelRefsTrace", path, nontrivial=nt,
                   sample_key=lambda c: {"src": c["src"], "vars": [x["name"] for x in c["refs"]["vars"]], "fns": [x["name"] for x in c["refs"]["fns"]],
                                         "outcomes": [(r["out"].get("k"), r["out"].get("c"), r["out"].get("name")) for r in c["runs"]]},
                   what="references: a looked-up / undeclared name is not reported, a fully defined context still failed with undeclared, or the report is not an identifier of the source")


# ----------------------------------------------------------------------------------------------
# C05

def probe_sync(run):
    """Compile-time probe: Program, Context<'static>, Value, ExecutionError must be Send + Sync."""
    import subprocess
    d = os.path.join(ROOT, "harness", "probe_sync")
    p = subprocess.run(["cargo", "build", "--offline", "--quiet"], cwd=d, stdout=subprocess.PIPE, stderr=subprocess.STDOUT, text=True)
    if p.returncode != 0:
        if "cannot be sent between threads" in p.stdout or "cannot be shared between threads" in p.stdout or "Send" in p.stdout or "Sync" in p.stdout:
            run.violation({"probe": "Send + Sync", "compiler_output": p.stdout[-3000:]}, "a type shared between threads is no longer Send + Sync")
        else:
            raise T.ToolError("probe_sync failed to build:\n" + p.stdout[-2000:])
    else:
        run.note_case("probe_sync", True)
        run.traces += 1


@check("C05")
def c05(run):
    run.rule = ("model: CelShare -- 2 (quick) / 3 (thorough) threads, each choosing freely up to 4 heap operations (load a context buffer, allocate, concatenate with a "
                "separate uniqueness test and mutation, drop), every interleaving: RootImmutable, NoDangling, ResultIsSequential, HeldValuesStable; negative "
                "configurations (unchecked in-place append, shared scratch buffer) must violate them; impl->spec: histories of 5-50 executions against one Context "
                "(context variables and every value obtained earlier re-read after each execution; repeats); 2-16 OS threads sharing &[Program] and the root &Context, "
                "each concurrent outcome compared with the program run alone and with the specification; Send+Sync compile-time probe; non-trivial = the program "
                "concatenates or iterates a context variable")
    model_check(run, "CelShare", cfg=run.q("CelShare_q", "CelShare"), workers=12)
    model_check(run, "CelShare", cfg="CelShare_neg1", workers=4, expect_violation=True)
    model_check(run, "CelShare", cfg="CelShare_neg2", workers=4, expect_violation=True)
    run.exhaustive = True
    probe_sync(run)
    nt = lambda c: any(v in c["src"] for v in ("vl1", "vl2", "vl3", "vs1", "vs2", "vm1"))
    h = run.work("histories.ndjson")
    celconf(["share-histories", "--seed", run.seed, "--n", run.q(60, 1500), "--out", h])
    validate_trace(run, "CelEvalTrace", h, nontrivial=nt,
                   what="history: an execution changed its context or an earlier value, or its result is not the specification's")
    for k, (threads, rounds, per) in enumerate(run.q([(4, 4, 150), (8, 4, 150)], [(2, 40, 200), (4, 40, 200), (8, 40, 200), (16, 40, 200)])):
        t = run.work("threads_%d.ndjson" % threads)
        celconf(["share-threads", "--seed", run.seed + k, "--n", rounds, "--threads", threads, "--per", per, "--out", t])
        validate_trace(run, "CelEvalTrace", t, nontrivial=nt,
                       what="concurrent execution: outcome differs from the same program run alone / from the specification, or the shared context changed")


@check("C15")
def c15(run):
    run.rule = ("model: CelDurationMC -- Parse(Format(n)) = n and the shape of Format(n) for a boundary set and a grid of magnitudes of both signs; "
                "impl->spec: string(d), duration(string(d)) == d for the boundary set (0, +-1ns ... +-1h, i64::MIN/MAX ns and neighbours) and log-uniform random "
                "nanosecond counts; duration(s) for non-canonical well-formed spellings and a mutation grammar over canonical strings (trailing text, missing unit, "
                "doubled sign, exponent, inf/nan, spaces, empty); + - and the six comparisons on every pair of the boundary set; non-trivial = non-zero duration or malformed string")
    model_check(run, "CelDurationMC", workers=1)
    run.exhaustive = True
    path = drive_ops(run, "c15")
    validate_trace(run, "CelOpTrace", path, sample_key=op_sample, nontrivial=lambda c: c["a"].get("n", {}).get("s", 1) != 0,
                   what="duration: rendering / parsing / arithmetic / comparison differs from the exact nanosecond semantics (CelDuration)")


@check("C16")
def c16(run):
    run.rule = ("model: CelTimeMC -- every day number of a range (quick ~137 years around 1970, thorough years 1502-2501) is a state: civil-from-days / days-from-civil round trip, "
                "successor date, weekday advance, year-day, anchors; local broken-down time around midnight; impl->spec: timestamps written by the harness itself as RFC 3339 text "
                "(first/last day of every month in leap, non-leap, century, 400-year and edge years x 3 times of day x offsets -12:00..+14:00, plus random), parsed by cel-rust; "
                "the instant must equal the specification's own parse of the text, every accessor its calendar field at the timestamp's offset, string(t) must denote the same "
                "instant and offset, timestamp(string(t)) == t, comparisons by instant, t+d, t-d, t1-t2 and the two laws; non-trivial = every record")
    model_check(run, "CelTimeMC", cfg=run.q("CelTimeMC_q", "CelTimeMC"), workers=1, timeout=3000)
    model_check(run, "CelTimeMC", cfg="CelTimeMC_local", workers=1)
    run.exhaustive = True
    path = drive_ops(run, "c16")
    validate_trace(run, "CelOpTrace", path, sample_key=op_sample, nontrivial=lambda c: True,
                   what="timestamp: instant / calendar field / rendering / arithmetic differs from the CelTime specification")


# ----------------------------------------------------------------------------------------------
# C17 / C18

@check("C17")
def c17(run):
    run.rule = ("model: CelDataMC -- every serde term of nesting depth <=2 over 13 leaf kinds and all 12 compound constructors is a state: Shape (signed->int, unsigned->uint, "
                "sequences/tuples->lists of the same length, structs/maps->maps with those keys, data-carrying variants->single-entry maps, options->value or null), "
                "KeysStrict, and for every JSON document of depth <=2 Export(Import(doc)) = doc; impl->spec: seeded random terms (depth<=5) built from a dynamic Term whose "
                "Serialize impl calls exactly the named Serializer method (every integer width at its extremes, NaN/inf, non-ASCII, nested options, every key kind, "
                "wrong-order map protocol, the private Duration/Timestamp marker names with proper and foreign content) through to_value and Context::add_variable; "
                "the commuting square json(to_value(t)) = serde_json::to_value(t) on JSON-representable terms; random serde_json documents; non-trivial = compound term")
    model_check(run, "CelDataMC", workers=1)
    run.exhaustive = True
    path = drive_ops(run, "c17")
    validate_trace(run, "CelDataTrace", path, nontrivial=lambda c: any(k in c["a"] for k in ("e", "x", "f", "m")),
                   sample_key=lambda c: {"op": c["op"], "term_or_doc": c["a"], "out": c["out"]},
                   what="host data conversion: panic, wrong shape, or converting-then-exporting differs from serde_json")


@check("C18")
def c18(run):
    run.rule = ("model: CelDataMC -- every CEL value of nesting depth <=2 over 14 leaf kinds (functions, in- and out-of-range durations, NaN, bytes, timestamps, colliding "
                "key texts 1 / 1u / '1' / true / 'true'): Total (export is a document or an error, an error iff an excluded value occurs) and RoundTrip "
                "(Import(Export(v)) == v on JSON-native values with text-distinct keys); impl->spec: seeded random values of every kind to depth 5 (functions nested in "
                "collections, durations on both sides of +-2^63 ns, NaN/inf, empty collections, colliding keys): json() must equal Export (base64, RFC 3339 text "
                "denoting the instant, nanosecond counts, null for non-finite) or the matching error, and to_value(json(v)) == v on the JSON-native fragment; "
                "non-trivial = collection, bytes, timestamp or duration")
    model_check(run, "CelDataMC", workers=1)
    run.exhaustive = True
    path = drive_ops(run, "c18")
    validate_trace(run, "CelDataTrace", path, nontrivial=lambda c: c["a"]["t"] in ("list", "map", "bytes", "ts", "dur"),
                   sample_key=lambda c: {"value": c["a"], "out": c["out"]},
                   what="JSON export: panic, wrong document, wrong error, or import(export(v)) != v")


@check("C13")
def c13(run):
    run.rule = ("model: CelNumLitMC -- laws of the literal/conversion definitions on a boundary set (range checks, truncation, decimal<->binary rounding interval); "
                "impl->spec: every boundary int/uint (0, +-1, +-2^31, +-2^53+-1, limits and neighbours) and random 64-bit patterns as decimal, hex, signed, u-suffixed and double "
                "literals, boundary and random doubles in several spellings, out-of-range and malformed literals: ints/uints must evaluate exactly, doubles to a correctly "
                "rounded value (decided by exact decimal/binary comparison), out-of-range literals must be compile errors; int()/uint()/double() on every boundary argument "
                "(NaN, +-inf, subnormals, -0.0, +-2^63, 2^64 and neighbouring doubles, numeric strings); string() followed by the inverse conversion; non-trivial = every record")
    model_check(run, "CelNumLitMC", workers=1)
    run.exhaustive = True
    path = drive_ops(run, "c13")
    validate_trace(run, "CelOpTrace", path, sample_key=op_sample, nontrivial=lambda c: True,
                   what="numeric literal / conversion: value differs from the number denoted, or an out-of-range case was not rejected")


@check("C12")
def c12(run):
    run.rule = ("model: CelLiteralMC -- every string of length <=2 over a 9-character alphabet (quotes, backslash, newline, non-ASCII, astral, NUL, U+FFFF) spelled in each "
                "quoting style with every verbatim/escape choice per character decodes to itself; impl->spec: every \\\\x, \\\\X, \\\\OOO (valid and invalid), \\\\u (quick: every 61st "
                "value plus boundaries and the surrogate range; thorough: all 65536), \\\\U at plane boundaries, surrogates, 10FFFF, 110000 and random values, every single-character "
                "escape and malformed escapes, in each of the 4 quoting styles, as string, bytes, raw and raw bytes literals, alone and between neighbours; random strings/byte "
                "sequences with random style and per-character spelling; non-trivial = the literal contains a backslash or a non-ASCII character")
    model_check(run, "CelLiteralMC", workers=1)
    run.exhaustive = True
    path = drive_ops(run, "c12")
    validate_trace(run, "CelOpTrace", path, sample_key=lambda c: {"src": c["src"], "out": c["out"]},
                   nontrivial=lambda c: "\\" in c["src"] or any(ord(ch) > 127 for ch in c["src"]),
                   what="string/bytes literal: the value differs from the characters the literal denotes, or an invalid literal compiled")


# ----------------------------------------------------------------------------------------------
# C04 / C01 (the parser)

sys.setrecursionlimit(200000)


def parse_vec_stage(run, module, cfg, key, harness_cmd, workers=12):
    r = model_check(run, module, cfg=cfg, workers=workers)
    if not r.vecs:
        raise T.ToolError("model %s produced no vectors" % cfg)
    vec = run.work(cfg + ".vectors.ndjson")
    with open(vec, "w") as f:
        for v in r.vecs:
            f.write(v + "\n")
    out = run.work(cfg + ".cases.ndjson")
    celconf([harness_cmd, "--in", vec, "--out", out])
    run.extra.setdefault("models", []).append({"cfg": cfg, "distinct_states": r.distinct, key: len(r.vecs)})
    return out


@check("C04")
def c04(run):
    run.rule = ("model: CelParseMC -- every tree with <=2 (quick) / <=3 (thorough) operators over the operator set (?:, ||, &&, relations, + - * %, ! -, index, select, member call, "
                "global call, list, map entry, all, map-with-filter) over an identifier and a literal is rendered fully and minimally parenthesised and must parse back to "
                "itself through the grammar transcription; each pair of texts is parsed by cel-rust and both ASTs compared with the model's tree; impl->spec: every && / || chain "
                "of length 2..64 (plain, and with literals and a parenthesised sub-chain), every prefix run of ! and - of length 1..6 on nine operand shapes, fixed precedence "
                "probes, random trees (depth<=7) and the same with redundant parentheses, whitespace and comments: accepted texts must be sentences and the AST must equal "
                "the grammar transcription's tree; non-trivial = contains an operator")
    out = parse_vec_stage(run, "CelParseMC", run.q("CelParseMC", "CelParseMC_thorough"), "trees", "parse-vectors")
    sk = lambda c: {"syms": c.get("syms"), "full": c.get("full", {}).get("src"), "min": c.get("min", {}).get("src")} if c.get("kind") == "vec" else {"src": c.get("src"), "outcome": c["out"]["k"]}
    validate_trace(run, "CelParseTrace", out, sample_key=sk, nontrivial=lambda c: len(c.get("syms", [])) > 1,
                   what="generated tree: cel-rust's parser did not return the tree that the rendered text denotes")
    # every && / || tree with up to 5 operators (1619 shapes): the fully parenthesised rendering must come back as exactly that tree
    out = parse_vec_stage(run, "CelParseMC", "CelParseMC_logic", "trees", "parse-vectors", workers=4)
    validate_trace(run, "CelParseTrace", out, sample_key=sk, nontrivial=lambda c: len(c.get("syms", [])) > 1,
                   what="generated && / || tree: cel-rust's parser did not return the tree that the rendered text denotes")
    run.exhaustive = True
    path = run.work("c04.ndjson")
    celconf(["drive-parse", "--family", "c04", "--seed", run.seed, "--tier", run.tier, "--out", path])
    validate_trace(run, "CelParseTrace", path, sample_key=sk, nontrivial=lambda c: any(ch in c.get("src", "") for ch in "+-*/%!<>=&|?.[("),
                   what="parsing: the AST differs from the tree CEL's precedence/associativity rules assign to the text, or a valid text was rejected")


@check("C01")
def c01(run):
    run.rule = ("model: CelSentenceMC -- every string of <=3 (quick) / <=4 (thorough) tokens over a 16-token alphabet (one representative per grammar role) classified by the "
                "grammar transcription (ParenClosure, NoDanglingOperator); every string is compiled by cel-rust; impl->spec: random character strings (up to 4 KiB), random "
                "token sequences, grammar-generated valid expressions, single-token insert/delete/replace/truncate mutants, nesting to depth 32, malformed-input probes. "
                "Accepted => the text is a sentence; rejected => at least one error, each with non-empty text and a position inside the source; Parser::parse and "
                "Program::compile must agree; a panic is never accepted; non-trivial = non-empty text")
    out = parse_vec_stage(run, "CelSentenceMC", run.q("CelSentenceMC_q", "CelSentenceMC"), "token_strings", "sentence-vectors")
    sk = lambda c: {"src": c.get("src"), "outcome": c["out"]["k"], "errors": c["out"].get("errors", [])[:2]}
    validate_trace(run, "CelParseTrace", out, sample_key=sk, nontrivial=lambda c: len(c.get("src", "")) > 0,
                   what="token string: accepted although it is not a sentence, or rejected without well-formed positioned errors, or panic")
    run.exhaustive = True
    path = run.work("c01.ndjson")
    celconf(["drive-parse", "--family", "c01", "--seed", run.seed, "--tier", run.tier, "--out", path])
    validate_trace(run, "CelParseTrace", path, sample_key=sk, nontrivial=lambda c: len(c.get("src", "")) > 0,
                   what="compile: accepted although it is not a sentence, or rejected without well-formed positioned errors, or panic")
