"""Running TLC / SANY and parsing what they print."""
import os, re, subprocess, time, shutil, json

ROOT = os.path.dirname(os.path.dirname(os.path.abspath(__file__)))
SPEC = os.path.join(ROOT, "spec")
WORK = os.path.join(ROOT, "work")


class ToolError(Exception):
    pass


def _parse_tla_value(s):
    """Parse the subset of TLC's value syntax our RESULT/VEC lines use into Python."""
    pos = 0
    n = len(s)

    def ws():
        nonlocal pos
        while pos < n and s[pos] in " \n\t\r":
            pos += 1

    def val():
        nonlocal pos
        ws()
        if s.startswith("<<", pos):
            pos += 2
            out = []
            ws()
            if s.startswith(">>", pos):
                pos += 2
                return out
            while True:
                out.append(val())
                ws()
                if s.startswith(">>", pos):
                    pos += 2
                    return out
                if s[pos] == ",":
                    pos += 1
                else:
                    raise ValueError("bad tuple at %d in %r" % (pos, s[max(0, pos - 20):pos + 20]))
        if s[pos] == "[":
            pos += 1
            out = {}
            while True:
                ws()
                m = re.match(r"([A-Za-z_][A-Za-z0-9_]*)\s*\|->", s[pos:])
                if not m:
                    raise ValueError("bad record at %d" % pos)
                pos += m.end()
                out[m.group(1)] = val()
                ws()
                if s[pos] == "]":
                    pos += 1
                    return out
                if s[pos] == ",":
                    pos += 1
                else:
                    raise ValueError("bad record sep at %d" % pos)
        if s[pos] == "{":
            pos += 1
            out = []
            ws()
            if s[pos] == "}":
                pos += 1
                return out
            while True:
                out.append(val())
                ws()
                if s[pos] == "}":
                    pos += 1
                    return out
                if s[pos] == ",":
                    pos += 1
                else:
                    raise ValueError("bad set")
        if s[pos] == '"':
            j = pos + 1
            buf = []
            while s[j] != '"':
                if s[j] == "\\":
                    j += 1
                    buf.append({"n": "\n", "t": "\t"}.get(s[j], s[j]))
                else:
                    buf.append(s[j])
                j += 1
            pos = j + 1
            return "".join(buf)
        m = re.match(r"-?\d+", s[pos:])
        if m:
            pos += m.end()
            return int(m.group(0))
        m = re.match(r"TRUE|FALSE", s[pos:])
        if m:
            pos += m.end()
            return m.group(0) == "TRUE"
        raise ValueError("cannot parse at %d: %r" % (pos, s[pos:pos + 30]))

    v = val()
    return v


class TlcResult:
    def __init__(self):
        self.stdout = ""
        self.generated = 0
        self.distinct = 0
        self.depth = 0
        self.results = []   # parsed <<"RESULT", rec>> payloads
        self.vecs = []      # raw JSON strings of <<"VEC", "...">> lines
        self.ok = False
        self.violation = None  # text of an invariant violation inside the model
        self.wall = 0.0
        self.coverage = {}


def run_tlc(module, cfg=None, env=None, workers=1, timeout=3600, simulate=None, depth=None, seed=None,
            xss="1g", xmx="8g", coverage=False, tag=None, deque=True, extra=None):
    """TLC occasionally dies with a StackOverflowError when several workers race on the first evaluation of
    recursive definitions (observed with init-state-only models); such a run is repeated once with one worker."""
    try:
        return _run_tlc(module, cfg, env, workers, timeout, simulate, depth, seed, xss, xmx, coverage, tag, deque, extra)
    except ToolError as e:
        if workers > 1 and "StackOverflowError" in str(e):
            return _run_tlc(module, cfg, env, 1, timeout, simulate, depth, seed, xss, xmx, coverage, tag, deque, extra)
        raise


def _run_tlc(module, cfg, env, workers, timeout, simulate, depth, seed, xss, xmx, coverage, tag, deque, extra):
    """Run TLC on spec/<module>.tla; raises ToolError on tool-level failures."""
    os.makedirs(WORK, exist_ok=True)
    tag = tag or module
    meta = os.path.join(WORK, "tlc_" + tag + "_" + str(os.getpid()))
    shutil.rmtree(meta, ignore_errors=True)
    cmd = ["tlc", "-workers", str(workers), "-metadir", meta, "-cleanup", "-noGenerateSpecTE",
           "-config", (cfg or module) + ".cfg"]
    if coverage:
        cmd += ["-coverage", "1"]
    if simulate:
        cmd += ["-simulate", "num=%d" % simulate]
        if depth:
            cmd += ["-depth", str(depth)]
    if seed is not None:
        cmd += ["-seed", str(seed)]
    if extra:
        cmd += extra
    cmd += [module + ".tla"]
    e = dict(os.environ)
    jopts = "-Xss%s -Xmx%s" % (xss, xmx)
    if deque:
        jopts += " -Dtlc2.tool.queue.IStateQueue=StateDeque"
    e["JAVA_TOOL_OPTIONS"] = jopts
    if env:
        e.update(env)
    t0 = time.time()
    try:
        p = subprocess.run(["timeout", str(timeout)] + cmd, cwd=SPEC, env=e, stdout=subprocess.PIPE,
                           stderr=subprocess.STDOUT, text=True)
    finally:
        shutil.rmtree(meta, ignore_errors=True)
    r = TlcResult()
    r.wall = time.time() - t0
    r.stdout = p.stdout
    out = p.stdout
    if p.returncode == 124:
        raise ToolError("TLC timed out after %ss on %s" % (timeout, module))
    for m in re.finditer(r'<<\s*"RESULT",\s*"(.*?)"\s*>>', out, re.S):
        try:
            r.results.append(json.loads(m.group(1).replace('\\"', '"').replace("\\\\", "\\")))
        except Exception as ex:
            raise ToolError("cannot parse RESULT line: %s (%s)" % (m.group(1)[:200], ex))
    for m in re.finditer(r'<<\s*"VEC",\s*"(.*?)"\s*>>', out, re.S):
        r.vecs.append(m.group(1).replace('\\"', '"').replace("\\\\", "\\"))
    m = re.search(r"(\d+) states generated, (\d+) distinct states found", out)
    if m:
        r.generated, r.distinct = int(m.group(1)), int(m.group(2))
    m = re.search(r"The depth of the complete state graph search is (\d+)", out)
    if m:
        r.depth = int(m.group(1))
    if re.search(r"Invariant (\S+) is violated|Action property .* is violated|Temporal properties were violated", out):
        mm = re.search(r"(Invariant \S+ is violated|Action property .* is violated)", out)
        r.violation = mm.group(1) if mm else "property violated"
    if coverage:
        for m in re.finditer(r"^<(\w+) line \d+, col \d+ to line \d+, col \d+ of module (\w+)>: (\d+):(\d+)", out, re.M):
            r.coverage[m.group(1)] = r.coverage.get(m.group(1), 0) + int(m.group(4))
    finished = "Model checking completed" in out or "Finished in" in out or simulate
    errors = re.findall(r"^Error: (.*)$", out, re.M)
    hard = [x for x in errors if "is violated" not in x and "Invariant" not in x and "behavior up to" not in x.lower()]
    if "Semantic errors" in out or "Parsing or semantic analysis failed" in out or "*** Errors" in out or (hard and r.violation is None):
        i = out.find("Error:")
        raise ToolError("TLC failed on %s:\n%s\n...\n%s" % (module, out[i:i + 1500], "\n".join(out.splitlines()[-12:])))
    if not finished and r.violation is None:
        raise ToolError("TLC did not finish on %s (rc=%d):\n%s" % (module, p.returncode, "\n".join(out.splitlines()[-30:])))
    r.ok = r.violation is None
    return r


def sany(module):
    p = subprocess.run(["tla-sany", module + ".tla"], cwd=SPEC, stdout=subprocess.PIPE, stderr=subprocess.STDOUT, text=True)
    bad = ("error" in p.stdout.lower() and "Semantic errors" in p.stdout) or "Parsing or semantic analysis failed" in p.stdout or "Fatal" in p.stdout or "*** Abort" in p.stdout
    return (not bad), p.stdout
