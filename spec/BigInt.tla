------------------------------ MODULE BigInt ------------------------------
(***************************************************************************)
(* Signed integers of arbitrary size: [s |-> -1|0|1, m |-> BigNat].        *)
(* m = <<>> iff s = 0.  JSON form produced by the harness encoder:         *)
(* {"s": -1, "m": [5808, 5477, 3685, 3720, 922]} for i64::MIN.             *)
(***************************************************************************)
EXTENDS Naturals, Integers, Sequences
LOCAL N == INSTANCE BigNat

Z(s, m) == IF m = << >> THEN [s |-> 0, m |-> << >>] ELSE [s |-> s, m |-> m]
Zero == [s |-> 0, m |-> << >>]
FromInt(n) == IF n = 0 THEN Zero
              ELSE IF n > 0 THEN [s |-> 1, m |-> N!FromNat(n)]
              ELSE [s |-> -1, m |-> N!FromNat(-n)]
FromNatB(m) == Z(1, m)

IsInt(a) == /\ a.s \in {-1, 0, 1} /\ N!IsNat(a.m) /\ (a.s = 0 <=> a.m = << >>)

Neg(a) == [s |-> -a.s, m |-> a.m]
Abs(a) == [s |-> IF a.s = 0 THEN 0 ELSE 1, m |-> a.m]
Sign(a) == a.s

Cmp(a, b) == IF a.s < b.s THEN -1
             ELSE IF a.s > b.s THEN 1
             ELSE IF a.s = 0 THEN 0
             ELSE IF a.s = 1 THEN N!Cmp(a.m, b.m)
             ELSE N!Cmp(b.m, a.m)
Lt(a, b) == Cmp(a, b) = -1
Le(a, b) == Cmp(a, b) # 1
Eq(a, b) == Cmp(a, b) = 0

Add(a, b) ==
  IF a.s = 0 THEN b
  ELSE IF b.s = 0 THEN a
  ELSE IF a.s = b.s THEN [s |-> a.s, m |-> N!Add(a.m, b.m)]
  ELSE LET c == N!Cmp(a.m, b.m)
       IN  IF c = 0 THEN Zero
           ELSE IF c = 1 THEN [s |-> a.s, m |-> N!Sub(a.m, b.m)]
           ELSE [s |-> b.s, m |-> N!Sub(b.m, a.m)]
Sub(a, b) == Add(a, Neg(b))
Mul(a, b) == IF a.s = 0 \/ b.s = 0 THEN Zero ELSE [s |-> a.s * b.s, m |-> N!Mul(a.m, b.m)]

\* truncated division (toward zero) and remainder with the sign of the dividend; b # 0
DivT(a, b) == Z(a.s * b.s, N!Div(a.m, b.m))
RemT(a, b) == Z(a.s, N!Mod(a.m, b.m))

Pow2(k) == [s |-> 1, m |-> N!Pow2(k)]
MulPow2(a, k) == Z(a.s, N!MulPow2(a.m, k))

\* small values back to native ints (|a| < 2^31)
ToInt(a) == a.s * N!ToNat(a.m)
=============================================================================
