------------------------------ MODULE BigNat ------------------------------
(***************************************************************************)
(* Natural numbers of arbitrary size as little-endian sequences of limbs   *)
(* in base B = 10^4.  TLC's integers are 32-bit Java ints; CEL's are 64    *)
(* bit (and products are 128 bit), so every number the specification       *)
(* handles is one of these.  Canonical form: no most-significant zero      *)
(* limb; zero is the empty sequence.  With B = 10^4 every intermediate     *)
(* (limb*limb + limb + carry) stays below 2^31.                            *)
(***************************************************************************)
EXTENDS Naturals, Integers, Sequences

B == 10000

Zero == << >>
One  == << 1 >>

RECURSIVE Norm(_)
Norm(a) == IF a = << >> THEN a
           ELSE IF a[Len(a)] = 0 THEN Norm(SubSeq(a, 1, Len(a) - 1)) ELSE a

Limb(a, i) == IF i <= Len(a) THEN a[i] ELSE 0

IsNat(a) == /\ \A i \in 1..Len(a) : a[i] \in 0..(B-1)
            /\ (a = << >> \/ a[Len(a)] # 0)

\* native (small) natural -> BigNat
RECURSIVE FromNat(_)
FromNat(n) == IF n = 0 THEN << >> ELSE << n % B >> \o FromNat(n \div B)

\* BigNat known to be < 2^31 -> native
RECURSIVE ToNatFrom(_, _)
ToNatFrom(a, i) == IF i > Len(a) THEN 0 ELSE a[i] + B * ToNatFrom(a, i + 1)
ToNat(a) == ToNatFrom(a, 1)

RECURSIVE AddC(_, _, _, _)
AddC(a, b, i, c) ==
  IF i > Len(a) /\ i > Len(b) THEN (IF c = 0 THEN << >> ELSE << c >>)
  ELSE LET s == Limb(a, i) + Limb(b, i) + c
       IN  << s % B >> \o AddC(a, b, i + 1, s \div B)
Add(a, b) == AddC(a, b, 1, 0)

\* comparison: -1, 0, 1
RECURSIVE CmpFrom(_, _, _)
CmpFrom(a, b, i) == IF i = 0 THEN 0
                    ELSE IF a[i] < b[i] THEN -1
                    ELSE IF a[i] > b[i] THEN 1
                    ELSE CmpFrom(a, b, i - 1)
Cmp(a, b) == IF Len(a) < Len(b) THEN -1
             ELSE IF Len(a) > Len(b) THEN 1
             ELSE CmpFrom(a, b, Len(a))
Lt(a, b) == Cmp(a, b) = -1
Le(a, b) == Cmp(a, b) # 1

\* a - b, requires a >= b
RECURSIVE SubC(_, _, _, _)
SubC(a, b, i, br) ==
  IF i > Len(a) THEN << >>
  ELSE LET d == Limb(a, i) - Limb(b, i) - br
       IN  IF d < 0 THEN << d + B >> \o SubC(a, b, i + 1, 1)
                    ELSE << d >> \o SubC(a, b, i + 1, 0)
Sub(a, b) == Norm(SubC(a, b, 1, 0))

\* a * d for a single limb d (0 <= d < B), plus carry
RECURSIVE MulLimbC(_, _, _, _)
MulLimbC(a, d, i, c) ==
  IF i > Len(a) THEN (IF c = 0 THEN << >> ELSE << c >>)
  ELSE LET p == a[i] * d + c
       IN  << p % B >> \o MulLimbC(a, d, i + 1, p \div B)
MulLimb(a, d) == IF d = 0 THEN << >> ELSE MulLimbC(a, d, 1, 0)

ShiftLimbs(a, k) == IF a = << >> THEN a ELSE [i \in 1..k |-> 0] \o a

RECURSIVE MulFrom(_, _, _)
MulFrom(a, b, j) ==
  IF j > Len(b) THEN << >>
  ELSE Add(ShiftLimbs(MulLimb(a, b[j]), j - 1), MulFrom(a, b, j + 1))
Mul(a, b) == IF a = << >> \/ b = << >> THEN << >> ELSE MulFrom(a, b, 1)

\* largest q in lo..hi with b*q <= r   (b > 0, invariant b*lo <= r < b*(hi+1))
RECURSIVE QDigit(_, _, _, _)
QDigit(r, b, lo, hi) ==
  IF lo = hi THEN lo
  ELSE LET mid == (lo + hi + 1) \div 2
       IN  IF Le(MulLimb(b, mid), r) THEN QDigit(r, b, mid, hi)
                                     ELSE QDigit(r, b, lo, mid - 1)

\* long division, most significant limb first; returns <<quotient limbs (msb first), remainder>>
RECURSIVE DivStep(_, _, _, _, _)
DivStep(a, b, i, r, qs) ==
  IF i = 0 THEN << qs, r >>
  ELSE LET r1 == Norm(<< a[i] >> \o r)        \* r*B + a[i]
           q  == QDigit(r1, b, 0, B - 1)
           r2 == Sub(r1, MulLimb(b, q))
       IN  DivStep(a, b, i - 1, r2, << q >> \o qs)
\* DivMod(a,b) = <<a div b, a mod b>>, b # 0
DivMod(a, b) == LET res == DivStep(a, b, Len(a), << >>, << >>)
                IN  << Norm(res[1]), res[2] >>
Div(a, b) == DivMod(a, b)[1]
Mod(a, b) == DivMod(a, b)[2]

RECURSIVE Pow2(_)
Pow2(k) == IF k = 0 THEN One
           ELSE IF k >= 13 THEN MulLimb(Pow2(k - 13), 8192)
           ELSE MulLimb(Pow2(k - 1), 2)

MulPow2(a, k) == Mul(a, Pow2(k))

IsZero(a) == a = << >>

\* decimal digits (most significant first, each 0..9) -> BigNat
RECURSIVE FromDigitsAcc(_, _, _, _)
FromDigitsAcc(ds, i, base, acc) ==
  IF i > Len(ds) THEN acc
  ELSE FromDigitsAcc(ds, i + 1, base, Add(MulLimb(acc, base), FromNat(ds[i])))
FromDigits(ds, base) == FromDigitsAcc(ds, 1, base, << >>)

\* BigNat -> decimal digits, most significant first (zero -> <<0>>)
Limb4(n) == << n \div 1000, (n \div 100) % 10, (n \div 10) % 10, n % 10 >>
RECURSIVE DropLeadingZeros(_)
DropLeadingZeros(ds) == IF Len(ds) > 1 /\ ds[1] = 0 THEN DropLeadingZeros(Tail(ds)) ELSE ds
RECURSIVE DigitsFrom(_, _)
DigitsFrom(a, i) == IF i = 0 THEN << >> ELSE Limb4(a[i]) \o DigitsFrom(a, i - 1)
ToDigits(a) == IF a = << >> THEN << 0 >> ELSE DropLeadingZeros(DigitsFrom(a, Len(a)))
=============================================================================
