INIT Init
NEXT Next
