---------------------------- MODULE BigNatMC ----------------------------
(* Self-test of the limb arithmetic against TLC's native integers on a grid that crosses
   limb boundaries (values up to 46340^2 < 2^31). *)
EXTENDS Naturals, Integers, Sequences, TLC
N == INSTANCE BigNat
Z == INSTANCE BigInt
Grid == {0, 1, 2, 7, 9999, 10000, 10001, 12345, 19999, 20000, 46340, 99999999, 100000000, 100000001, 2147483647}
Small == {0, 1, 2, 9, 10, 99, 100, 9999, 10000, 10001, 46340}
SGrid == {-46340, -10001, -10000, -9999, -7, -1, 0, 1, 7, 9999, 10000, 46340}
ASSUME \A a \in Grid : N!IsNat(N!FromNat(a)) /\ N!ToNat(N!FromNat(a)) = a
ASSUME \A a \in Grid, b \in Grid : N!Cmp(N!FromNat(a), N!FromNat(b)) = (IF a < b THEN -1 ELSE IF a > b THEN 1 ELSE 0)
ASSUME \A a \in Small, b \in Grid : b <= 2147400000 => N!Add(N!FromNat(a), N!FromNat(b)) = N!FromNat(a + b)
ASSUME \A a \in Grid, b \in Grid : a >= b => N!Sub(N!FromNat(a), N!FromNat(b)) = N!FromNat(a - b)
ASSUME \A a \in Small, b \in Small : N!Mul(N!FromNat(a), N!FromNat(b)) = N!FromNat(a * b)
ASSUME \A a \in Grid, b \in Grid : b # 0 => N!DivMod(N!FromNat(a), N!FromNat(b)) = << N!FromNat(a \div b), N!FromNat(a % b) >>
\* algebraic laws beyond native range: (a*b) div b = a, (a*b + r) mod b = r
ASSUME \A a \in Grid, b \in Grid, r \in Small : (b # 0 /\ r < b) =>
   LET A == N!FromNat(a) BB == N!FromNat(b) R == N!FromNat(r)
       P == N!Add(N!Mul(N!Mul(A, A), BB), R)
   IN  N!DivMod(P, BB) = << N!Mul(A, A), R >> /\ N!IsNat(P)
ASSUME N!Pow2(10) = N!FromNat(1024) /\ N!Pow2(30) = N!FromNat(1073741824) /\ N!Pow2(13) = N!FromNat(8192) /\ N!Pow2(26) = N!FromNat(67108864)
ASSUME N!Pow2(64) = <<1616, 955, 737, 6744, 1844>>
ASSUME N!ToDigits(N!Pow2(64)) = <<1,8,4,4,6,7,4,4,0,7,3,7,0,9,5,5,1,6,1,6>>
ASSUME N!FromDigits(<<1,8,4,4,6,7,4,4,0,7,3,7,0,9,5,5,1,6,1,6>>, 10) = N!Pow2(64)
ASSUME N!FromDigits(<<15,15>>, 16) = N!FromNat(255)
ASSUME \A a \in SGrid, b \in SGrid :
   /\ Z!Add(Z!FromInt(a), Z!FromInt(b)) = Z!FromInt(a + b)
   /\ Z!Sub(Z!FromInt(a), Z!FromInt(b)) = Z!FromInt(a - b)
   /\ Z!Mul(Z!FromInt(a), Z!FromInt(b)) = Z!FromInt(a * b)
   /\ Z!Cmp(Z!FromInt(a), Z!FromInt(b)) = (IF a < b THEN -1 ELSE IF a > b THEN 1 ELSE 0)
   /\ Z!IsInt(Z!Mul(Z!FromInt(a), Z!FromInt(b)))
\* truncated division: TLC's \div floors, so state the law instead
ASSUME \A a \in SGrid, b \in SGrid : b # 0 =>
   LET A == Z!FromInt(a) BB == Z!FromInt(b) q == Z!DivT(A, BB) r == Z!RemT(A, BB)
   IN  /\ Z!Add(Z!Mul(q, BB), r) = A
       /\ (r.s = 0 \/ r.s = A.s)
       /\ Z!Lt(Z!Abs(r), Z!Abs(BB))
VARIABLE x
Init == x = 0
Next == UNCHANGED x
=============================================================================
