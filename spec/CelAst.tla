------------------------------- MODULE CelAst -------------------------------
(***************************************************************************)
(* Surface syntax trees (what the user writes, macros not yet expanded),   *)
(* macro expansion into the parser's comprehension form, prefix ("Polish") *)
(* notation used by the model-checking modules to grow programs one        *)
(* symbol at a time, and rendering to fully parenthesised source text.     *)
(*                                                                         *)
(* A surface tree is a core AST record (see CelEval) or                    *)
(*   [k |-> "macro", m, range, var, args]   m in all exists exists_one map filter *)
(***************************************************************************)
EXTENDS Naturals, Integers, Sequences, FiniteSets, TLC, CelValue
LOCAL ZZ == INSTANCE BigInt
LOCAL NN == INSTANCE BigNat

None == [k |-> "none"]
Lit(v) == [k |-> "lit", v |-> v]
\* identifiers used by the models are ASCII letters/digits; ncp (code points) is only needed
\* by the identifier extractor, which the models do not exercise
Id(n)  == [k |-> "id", name |-> n, ncp |-> << >>]
Call(f, args) == [k |-> "call", fn |-> f, tgt |-> None, args |-> args]
MCall(t, f, args) == [k |-> "call", fn |-> f, tgt |-> t, args |-> args]
ListE(es) == [k |-> "list", e |-> es]
MapE(es)  == [k |-> "map", e |-> es]
Sel(e, f, fcp, test) == [k |-> "sel", e |-> e, field |-> f, fcp |-> fcp, test |-> test]
Macro(m, range, var, args) == [k |-> "macro", m |-> m, range |-> range, var |-> var, args |-> args]
IntLit(n) == Lit(VIntN(n))
BoolLit(b) == Lit(VBool(b))
Accu == "@result"

\* the expansions of antlr/src/macros.rs, over already expanded sub-trees
ExpandOne(m, range, var, args) ==
  LET comp(init, cond, step, res) ==
        [k |-> "comp", range |-> range, var |-> var, accu |-> Accu, init |-> init, cond |-> cond, step |-> step, res |-> res]
      acc == Id(Accu)
  IN
  CASE m = "all" ->
         comp(BoolLit(TRUE), Call("@not_strictly_false", << acc >>), Call("_&&_", << acc, args[1] >>), acc)
    [] m = "exists" ->
         comp(BoolLit(FALSE), Call("@not_strictly_false", << Call("!_", << acc >>) >>), Call("_||_", << acc, args[1] >>), acc)
    [] m = "exists_one" ->
         comp(IntLit(0), BoolLit(TRUE),
              Call("_?_:_", << args[1], Call("_+_", << acc, IntLit(1) >>), acc >>),
              Call("_==_", << acc, IntLit(1) >>))
    [] m = "map" /\ Len(args) = 1 ->
         comp(ListE(<< >>), BoolLit(TRUE), Call("_+_", << acc, ListE(<< args[1] >>) >>), acc)
    [] m = "map" /\ Len(args) = 2 ->
         comp(ListE(<< >>), BoolLit(TRUE),
              Call("_?_:_", << args[1], Call("_+_", << acc, ListE(<< args[2] >>) >>), acc >>), acc)
    [] m = "filter" ->
         comp(ListE(<< >>), BoolLit(TRUE),
              Call("_?_:_", << args[1], Call("_+_", << acc, ListE(<< Id(var) >>) >>), acc >>), acc)

RECURSIVE Expand(_)
Expand(e) ==
  CASE e.k = "macro" -> ExpandOne(e.m, Expand(e.range), e.var, [i \in 1..Len(e.args) |-> Expand(e.args[i])])
    [] e.k = "call"  -> [e EXCEPT !.tgt = IF @.k = "none" THEN @ ELSE Expand(@),
                                  !.args = [i \in 1..Len(e.args) |-> Expand(e.args[i])]]
    [] e.k = "sel"   -> [e EXCEPT !.e = Expand(@)]
    [] e.k = "list"  -> [e EXCEPT !.e = [i \in 1..Len(e.e) |-> Expand(e.e[i])]]
    [] e.k = "map"   -> [e EXCEPT !.e = [i \in 1..Len(e.e) |-> << Expand(e.e[i][1]), Expand(e.e[i][2]) >>]]
    [] OTHER -> e

\* names occurring in a surface tree: identifiers (variables) and called function names
RECURSIVE Names(_)
Names(e) ==
  LET U(es) == UNION { Names(es[i]) : i \in 1..Len(es) } IN
  CASE e.k = "id"    -> { << "var", e.name >> }
    [] e.k = "call"  -> { << "fn", e.fn >> } \cup U(e.args) \cup (IF e.tgt.k = "none" THEN {} ELSE Names(e.tgt))
    [] e.k = "sel"   -> Names(e.e)
    [] e.k = "list"  -> U(e.e)
    [] e.k = "map"   -> UNION { Names(e.e[i][1]) \cup Names(e.e[i][2]) : i \in 1..Len(e.e) }
    [] e.k = "macro" -> Names(e.range) \cup U(e.args)
    [] OTHER -> {}

-----------------------------------------------------------------------------
(* Prefix notation.  A symbol is a string; Arity gives its number of operands;
   Build(sym, pos, kids) the tree; Src(sym, pos, kidsrc) its source text.  pos (the position of
   the symbol in the prefix string) labels logging leaves so that the host log identifies them. *)
BinSyms == [s \in {"add", "sub", "mul", "div", "rem", "eq", "ne", "lt", "le", "gt", "ge", "in", "idx"} |->
             CASE s = "add" -> << "_+_", "+" >> [] s = "sub" -> << "_-_", "-" >> [] s = "mul" -> << "_*_", "*" >>
               [] s = "div" -> << "_/_", "/" >> [] s = "rem" -> << "_%_", "%" >> [] s = "eq" -> << "_==_", "==" >>
               [] s = "ne" -> << "_!=_", "!=" >> [] s = "lt" -> << "_<_", "<" >> [] s = "le" -> << "_<=_", "<=" >>
               [] s = "gt" -> << "_>_", ">" >> [] s = "ge" -> << "_>=_", ">=" >> [] s = "in" -> << "@in", "in" >>
               [] s = "idx" -> << "_[_]", "[" >> ]
MacroSyms == {"all", "exists", "exists_one", "mapm", "filter", "mapf"}
MacroVar == "x"

I64MaxV == VInt(ZZ!Sub(ZZ!Pow2(63), ZZ!FromInt(1)))
I64MinV == VInt(ZZ!Neg(ZZ!Pow2(63)))

\* macros ranging over the context list "vl" directly (one operand: the body)
VlMacros == [s \in {"all_vl", "exists_vl", "exone_vl", "filter_vl", "map_vl"} |->
              CASE s = "all_vl" -> "all" [] s = "exists_vl" -> "exists" [] s = "exone_vl" -> "exists_one"
                [] s = "filter_vl" -> "filter" [] s = "map_vl" -> "map"]

Arity(s) ==
  CASE s \in {"and", "or"} \cup DOMAIN BinSyms -> 2
    [] s = "cond" -> 3
    [] s \in {"not", "neg", "t", "h1", "m0", "size", "list1", "int", "has_a", "sel_a"} -> 1
    [] s \in DOMAIN VlMacros -> 1
    [] s \in {"h2", "m1", "list2", "map1"} -> 2
    [] s \in {"h3", "m2"} -> 3
    [] s \in {"all", "exists", "exists_one", "mapm", "filter", "ally", "existsy", "mapy", "filtery"} -> 2
    [] s = "mapf" -> 3
    [] OTHER -> 0
IsOp(s) == Arity(s) > 0

Build(s, pos, k) ==
  CASE s = "and"  -> Call("_&&_", k)
    [] s = "or"   -> Call("_||_", k)
    [] s = "cond" -> Call("_?_:_", k)
    [] s = "not"  -> Call("!_", k)
    [] s = "neg"  -> Call("-_", k)
    [] s \in DOMAIN BinSyms -> Call(BinSyms[s][1], k)
    [] s = "t"    -> Call("t", << IntLit(pos), k[1] >>)
    [] s \in {"h1", "h2", "h3", "size", "int"} -> Call(s, k)
    [] s \in {"m0", "m1", "m2"} -> MCall(k[1], s, Tail(k))
    [] s \in {"list1", "list2"} -> ListE(k)
    [] s = "map1" -> MapE(<< << k[1], k[2] >> >>)
    [] s = "has_a" -> Sel(k[1], "a", << 97 >>, TRUE)
    [] s = "sel_a" -> Sel(k[1], "a", << 97 >>, FALSE)
    [] s = "all" -> Macro("all", k[1], MacroVar, << k[2] >>)
    [] s = "exists" -> Macro("exists", k[1], MacroVar, << k[2] >>)
    [] s = "exists_one" -> Macro("exists_one", k[1], MacroVar, << k[2] >>)
    [] s = "mapm" -> Macro("map", k[1], MacroVar, << k[2] >>)
    [] s = "mapf" -> Macro("map", k[1], MacroVar, << k[2], k[3] >>)
    [] s = "filter" -> Macro("filter", k[1], MacroVar, << k[2] >>)
    [] s \in DOMAIN VlMacros -> Macro(VlMacros[s], Id("vl"), MacroVar, << k[1] >>)
    [] s = "ally" -> Macro("all", k[1], "y", << k[2] >>)
    [] s = "existsy" -> Macro("exists", k[1], "y", << k[2] >>)
    [] s = "mapy" -> Macro("map", k[1], "y", << k[2] >>)
    [] s = "filtery" -> Macro("filter", k[1], "y", << k[2] >>)
    [] s = "y" -> Id("y")
    [] s = "ll" -> ListE(<< ListE(<< IntLit(1), IntLit(2) >>), ListE(<< IntLit(0) >>) >>)
    \* leaves
    [] s = "T" -> BoolLit(TRUE)
    [] s = "F" -> BoolLit(FALSE)
    [] s = "tb" -> Call("tb", << IntLit(pos) >>)
    [] s = "fail" -> Call("fail", << IntLit(pos) >>)
    [] s = "div0" -> Call("_/_", << IntLit(1), IntLit(0) >>)
    [] s = "ovf" -> Call("_+_", << Lit(I64MaxV), IntLit(1) >>)
    [] s = "nokey" -> Sel(MapE(<< >>), "k", << 107 >>, FALSE)
    [] s = "undecl" -> Id("undeclared_v")
    [] s = "nofn" -> Call("nofn", << >>)                 \* a call of a function nobody registered
    [] s = "i0" -> IntLit(0)
    [] s = "i1" -> IntLit(1)
    [] s = "i2" -> IntLit(2)
    [] s = "im1" -> IntLit(-1)
    [] s = "imax" -> Lit(I64MaxV)
    [] s = "imin" -> Lit(I64MinV)
    [] s = "u1" -> Lit(VUintN(1))
    [] s = "sa" -> Lit(VStr(<< 97 >>))
    [] s = "null" -> Lit(VNull)
    [] s = "x" -> Id("x")
    [] s = "vi" -> Id("vi")
    [] s = "vl" -> Id("vl")
    [] s = "vm" -> Id("vm")
    \* compound leaves over the macro variable (chain configurations): a logging / an erroring int and bool
    [] s = "tx"  -> Call("t", << IntLit(pos), Id("x") >>)
    [] s = "txp" -> Call("_>_", << Call("t", << IntLit(pos), Id("x") >>), IntLit(0) >>)
    [] s = "dx"  -> Call("_/_", << IntLit(10), Id("x") >>)
    [] s = "dxp" -> Call("_>_", << Call("_/_", << IntLit(10), Id("x") >>), IntLit(0) >>)
    [] s = "l0" -> ListE(<< >>)
    [] s = "l12" -> ListE(<< IntLit(1), IntLit(2) >>)
    [] s = "l012" -> ListE(<< IntLit(0), IntLit(1), IntLit(2) >>)

Join(strs, sep) == IF strs = << >> THEN ""
                   ELSE LET RECURSIVE J(_)
                            J(i) == IF i = Len(strs) THEN strs[i] ELSE strs[i] \o sep \o J(i + 1)
                        IN J(1)

Src(s, pos, k) ==
  CASE s = "and"  -> "(" \o k[1] \o " && " \o k[2] \o ")"
    [] s = "or"   -> "(" \o k[1] \o " || " \o k[2] \o ")"
    [] s = "cond" -> "(" \o k[1] \o " ? " \o k[2] \o " : " \o k[3] \o ")"
    [] s = "not"  -> "(!" \o k[1] \o ")"
    [] s = "neg"  -> "(-" \o k[1] \o ")"
    [] s = "idx"  -> k[1] \o "[" \o k[2] \o "]"
    [] s \in DOMAIN BinSyms -> "(" \o k[1] \o " " \o BinSyms[s][2] \o " " \o k[2] \o ")"
    [] s = "t"    -> "t(" \o ToString(pos) \o ", " \o k[1] \o ")"
    [] s \in {"h1", "h2", "h3", "size", "int"} -> s \o "(" \o Join(k, ", ") \o ")"
    [] s \in {"m0", "m1", "m2"} -> k[1] \o "." \o s \o "(" \o Join(Tail(k), ", ") \o ")"
    [] s \in {"list1", "list2"} -> "[" \o Join(k, ", ") \o "]"
    [] s = "map1" -> "{" \o k[1] \o ": " \o k[2] \o "}"
    [] s = "has_a" -> "has(" \o k[1] \o ".a)"
    [] s = "sel_a" -> k[1] \o ".a"
    [] s \in {"all", "exists", "exists_one", "filter"} -> k[1] \o "." \o s \o "(x, " \o k[2] \o ")"
    [] s = "mapm" -> k[1] \o ".map(x, " \o k[2] \o ")"
    [] s \in DOMAIN VlMacros -> "vl." \o VlMacros[s] \o "(x, " \o k[1] \o ")"
    [] s = "ally" -> k[1] \o ".all(y, " \o k[2] \o ")"
    [] s = "existsy" -> k[1] \o ".exists(y, " \o k[2] \o ")"
    [] s = "mapy" -> k[1] \o ".map(y, " \o k[2] \o ")"
    [] s = "filtery" -> k[1] \o ".filter(y, " \o k[2] \o ")"
    [] s = "ll" -> "[[1, 2], [0]]"
    [] s = "mapf" -> k[1] \o ".map(x, " \o k[2] \o ", " \o k[3] \o ")"
    [] s = "T" -> "true"
    [] s = "F" -> "false"
    [] s = "tb" -> "tb(" \o ToString(pos) \o ")"
    [] s = "fail" -> "fail(" \o ToString(pos) \o ")"
    [] s = "div0" -> "(1 / 0)"
    [] s = "ovf" -> "(9223372036854775807 + 1)"
    [] s = "nokey" -> "{}.k"
    [] s = "undecl" -> "undeclared_v"
    [] s = "nofn" -> "nofn()"
    [] s = "i0" -> "0"
    [] s = "i1" -> "1"
    [] s = "i2" -> "2"
    [] s = "im1" -> "(-1)"
    [] s = "imax" -> "9223372036854775807"
    [] s = "imin" -> "(-9223372036854775808)"
    [] s = "u1" -> "1u"
    [] s = "sa" -> "'a'"
    [] s = "null" -> "null"
    [] s \in {"x", "y", "vi", "vl", "vm"} -> s
    [] s = "tx"  -> "t(" \o ToString(pos) \o ", x)"
    [] s = "txp" -> "(t(" \o ToString(pos) \o ", x) > 0)"
    [] s = "dx"  -> "(10 / x)"
    [] s = "dxp" -> "((10 / x) > 0)"
    [] s = "l0" -> "[]"
    [] s = "l12" -> "[1, 2]"
    [] s = "l012" -> "[0, 1, 2]"

\* parse a complete prefix string: returns [tree, src, next]
RECURSIVE ParseAt(_, _)
RECURSIVE ParseKids(_, _, _, _, _)
ParseKids(syms, i, n, trees, srcs) ==
  IF n = 0 THEN [trees |-> trees, srcs |-> srcs, next |-> i]
  ELSE LET r == ParseAt(syms, i)
       IN  ParseKids(syms, r.next, n - 1, Append(trees, r.tree), Append(srcs, r.src))
ParseAt(syms, i) ==
  LET s == syms[i]
      ks == ParseKids(syms, i + 1, Arity(s), << >>, << >>)
  IN  [tree |-> Build(s, i, ks.trees), src |-> Src(s, i, ks.srcs), next |-> ks.next]
ParsePrefix(syms) == ParseAt(syms, 1)
=============================================================================
