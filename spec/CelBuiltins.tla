----------------------------- MODULE CelBuiltins -----------------------------
(***************************************************************************)
(* Reference semantics of the standard functions, applied to already       *)
(* extracted (receiver / argument) values.  Signatures (how receiver and   *)
(* arguments are bound) live in the registry handed to CelEval.            *)
(***************************************************************************)
EXTENDS Naturals, Integers, Sequences, FiniteSets, CelValue
LOCAL N  == INSTANCE BigNat
LOCAL Z  == INSTANCE BigInt
LOCAL NM == INSTANCE Num64
LOCAL DB == INSTANCE Dbl
LOCAL NL == INSTANCE CelNumLit
LOCAL DU == INSTANCE CelDuration
LOCAL TM == INSTANCE CelTime
LOCAL RX == INSTANCE CelRegex

FnErr == {"fnerr"}

\* UTF-8
Utf8Enc1(c) ==
  IF c < 128 THEN << c >>
  ELSE IF c < 2048 THEN << 192 + (c \div 64), 128 + (c % 64) >>
  ELSE IF c < 65536 THEN << 224 + (c \div 4096), 128 + ((c \div 64) % 64), 128 + (c % 64) >>
  ELSE << 240 + (c \div 262144), 128 + ((c \div 4096) % 64), 128 + ((c \div 64) % 64), 128 + (c % 64) >>
RECURSIVE Utf8EncFrom(_, _)
Utf8EncFrom(cp, i) == IF i > Len(cp) THEN << >> ELSE Utf8Enc1(cp[i]) \o Utf8EncFrom(cp, i + 1)
Utf8Enc(cp) == Utf8EncFrom(cp, 1)

\* strict UTF-8 decoding: [ok, cp]
Cont(b) == b >= 128 /\ b < 192
RECURSIVE Utf8DecFrom(_, _, _)
Utf8DecFrom(b, i, acc) ==
  IF i > Len(b) THEN [ok |-> TRUE, cp |-> acc]
  ELSE LET b0 == b[i] IN
       IF b0 < 128 THEN Utf8DecFrom(b, i + 1, Append(acc, b0))
       ELSE IF b0 >= 194 /\ b0 < 224 /\ i + 1 <= Len(b) /\ Cont(b[i+1])
            THEN Utf8DecFrom(b, i + 2, Append(acc, (b0 - 192) * 64 + (b[i+1] - 128)))
       ELSE IF b0 >= 224 /\ b0 < 240 /\ i + 2 <= Len(b) /\ Cont(b[i+1]) /\ Cont(b[i+2])
            THEN LET c == (b0 - 224) * 4096 + (b[i+1] - 128) * 64 + (b[i+2] - 128)
                 IN  IF c >= 2048 /\ ~(c >= 55296 /\ c <= 57343) THEN Utf8DecFrom(b, i + 3, Append(acc, c))
                     ELSE [ok |-> FALSE]
       ELSE IF b0 >= 240 /\ b0 < 245 /\ i + 3 <= Len(b) /\ Cont(b[i+1]) /\ Cont(b[i+2]) /\ Cont(b[i+3])
            THEN LET c == (b0 - 240) * 262144 + (b[i+1] - 128) * 4096 + (b[i+2] - 128) * 64 + (b[i+3] - 128)
                 IN  IF c >= 65536 /\ c <= 1114111 THEN Utf8DecFrom(b, i + 4, Append(acc, c))
                     ELSE [ok |-> FALSE]
       ELSE [ok |-> FALSE]
Utf8Dec(b) == Utf8DecFrom(b, 1, << >>)

IsPrefix(p, s) == Len(p) <= Len(s) /\ SubSeq(s, 1, Len(p)) = p
IsSuffix(p, s) == Len(p) <= Len(s) /\ SubSeq(s, Len(s) - Len(p) + 1, Len(s)) = p

IntText(n) == (IF n.s < 0 THEN << 45 >> ELSE << >>) \o DigitCps(N!ToDigits(n.m))

Size(v) ==
  CASE v.t = "list"  -> R(VIntN(Len(v.e)))
    [] v.t = "map"   -> R(VIntN(Len(v.e)))
    [] v.t = "bytes" -> R(VIntN(Len(v.b)))
    [] v.t = "str"   -> IF IsAscii(v.cp) THEN R(VIntN(Len(v.cp)))
                        ELSE D(R(VIntN(Len(v.cp))))           \* code points in CEL, UTF-8 bytes here
    [] OTHER         -> E({"fnerr", "type"})

ContainsFn(this, arg) ==
  CASE this.t = "list" -> R(VBool(InList(arg, this.e, 1)))
    [] this.t = "map"  -> IF IsKeyKind(arg) THEN R(VBool(HasKey(this, arg))) ELSE E({"type"})
    [] this.t = "str"  -> IF arg.t = "str" THEN R(VBool(Contains(this.cp, arg.cp))) ELSE D(R(VBool(FALSE)))
    [] this.t = "bytes" -> IF arg.t = "bytes" THEN R(VBool(Contains(this.b, arg.b)))       \* documented by the implementation: a run of bytes occurs
                           ELSE D(R(VBool(FALSE)))
    [] OTHER           -> D(R(VBool(FALSE)))

\* min / max over a non-empty sequence of mutually comparable values: any member that bounds
\* all the others (ties between equal members of different kinds are not pinned: Dev)
RECURSIVE Extreme(_, _, _, _)
Extreme(xs, i, best, wantMax) ==
  IF i > Len(xs) THEN R(best)
  ELSE LET c == Cmp(best, xs[i]) IN
       IF best.t \in {"bytes", "null"} /\ xs[i].t = best.t THEN D(E({"type"}))      \* ordering of bytes / null is not pinned
       ELSE IF c \in {"inc", "un"} THEN (IF c = "un" THEN D(E({"type"})) ELSE E({"type"}))
       ELSE IF c = "eq" THEN
              (IF Same(best, xs[i]) THEN Extreme(xs, i + 1, xs[i], wantMax)
               ELSE D(Extreme(xs, i + 1, xs[i], wantMax)))
       ELSE IF (c = "lt") = wantMax THEN Extreme(xs, i + 1, xs[i], wantMax)
       ELSE Extreme(xs, i + 1, best, wantMax)
PropDev(r, d) == IF d THEN D(r) ELSE r
MinMax(args, wantMax) ==
  LET items == IF Len(args) = 1 THEN (IF args[1].t = "list" THEN args[1].e ELSE << >>) ELSE args
  IN  IF Len(args) = 1 /\ args[1].t # "list" THEN D(R(args[1]))        \* single non-list argument: returned as is
      ELSE IF items = << >> THEN D(R(VNull))                            \* empty: null here, an error in CEL
      ELSE Extreme(items, 2, items[1], wantMax)

\* s.matches(p): a search for the regular expression p in s; patterns outside the fragment CelRegex covers are not pinned
MatchesFn(this, arg) ==
  IF this.t # "str" \/ arg.t # "str" THEN D(E({"type", "fnerr"}))
  ELSE LET p == RX!Parse(arg.cp) IN
       IF p.ok THEN R(VBool(RX!IsMatch(p.node, this.cp))) ELSE D(R(VBool(TRUE)))

Builtin(name, got) ==
  CASE name = "size"       -> Size(got[1])
    [] name = "contains"   -> ContainsFn(got[1], got[2])
    [] name = "startsWith" -> R(VBool(IsPrefix(got[2].cp, got[1].cp)))
    [] name = "endsWith"   -> R(VBool(IsSuffix(got[2].cp, got[1].cp)))
    [] name = "matches"    -> MatchesFn(got[1], got[2])
    [] name = "string"     -> NL!ToStringFn(got[1])
    [] name = "bytes"      -> R(VBytes(Utf8Enc(got[1].cp)))
    [] name = "double"     -> NL!ToDoubleFn(got[1])
    [] name = "int"        -> NL!ToIntFn(got[1])
    [] name = "uint"       -> NL!ToUintFn(got[1])
    [] name = "max"        -> MinMax(got[1].e, TRUE)
    [] name = "min"        -> MinMax(got[1].e, FALSE)
    [] name = "duration"   -> DU!DurationFn(got[1])
    [] name = "timestamp"  -> TM!TimestampFn(got[1])
    [] name \in TM!Accessors -> TM!Accessor(name, got[1])
    [] OTHER               -> D(E({"fnerr"}))

\* the registry of Context::default(): name -> [kind, sig]
P(x, ty) == [x |-> x, ty |-> ty]
BuiltinSig(name) ==
  CASE name \in {"size", "string", "double", "int", "uint"} -> << P("this", "any") >>
    [] name = "contains" -> << P("this", "any"), P("arg", "any") >>
    [] name \in {"startsWith", "endsWith", "matches"} -> << P("this", "str"), P("arg", "str") >>
    [] name \in {"bytes", "duration", "timestamp"} -> << P("arg", "str") >>
    [] name \in {"min", "max"} -> << P("args", "any") >>
    [] name \in TM!Accessors -> << P("this", "ts") >>
BuiltinNames == {"size", "string", "double", "int", "uint", "contains", "startsWith", "endsWith", "matches",
                 "bytes", "duration", "timestamp", "min", "max"} \cup TM!Accessors
DefaultRegistry == [n \in BuiltinNames |-> [kind |-> "builtin", sig |-> BuiltinSig(n), beh |-> ""]]
=============================================================================
