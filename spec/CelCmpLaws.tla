----------------------------- MODULE CelCmpLaws -----------------------------
(***************************************************************************)
(* The coherence laws of equality and ordering, checked directly on the    *)
(* table OBSERVED from the implementation (independently of what the       *)
(* specification says each cell should be): record k describes the pair    *)
(* (ia, ib) of pool values with the outcomes of the six relations, each    *)
(* "T", "F", "E" (execution error) or "P" (panic).  Records are sorted so  *)
(* that pair (i, j) is record i*n + j + 1.                                 *)
(***************************************************************************)
EXTENDS Naturals, Integers, Sequences, FiniteSets, TLC, Json, IOUtils
Rec == ndJsonDeserialize(IOEnv.TRACE)
N == Rec[1].n                       \* pool size (every record carries it)
At(i, j) == Rec[i * N + j + 1]

VARIABLES l, bad
vars == << l, bad >>

Bool(x) == x \in {"T", "F"}
Defined(r) == Bool(r.lt) /\ Bool(r.gt) /\ Bool(r.le) /\ Bool(r.ge)

PairOK(r) ==
  LET s == At(r.ib, r.ia) IN
  /\ \A f \in {"eq", "ne", "lt", "le", "gt", "ge"} : r[f] # "P"                 \* never a panic
  /\ Bool(r.eq) /\ Bool(r.ne) /\ (r.ne = "T") = (r.eq = "F")                    \* != is the negation of ==
  /\ (r.eq = "T") = (s.eq = "T")                                                \* == is symmetric
  /\ Bool(r.lt) = Bool(r.gt) /\ Bool(r.lt) = Bool(r.le) /\ Bool(r.lt) = Bool(r.ge)   \* defined together
  /\ Bool(r.lt) = Bool(s.gt)                                                    \* comparability is symmetric
  /\ Defined(r) =>
       /\ (IF r.lt = "T" THEN 1 ELSE 0) + (IF r.eq = "T" THEN 1 ELSE 0) + (IF r.gt = "T" THEN 1 ELSE 0) = 1   \* exactly one
       /\ (r.le = "T") = (r.lt = "T" \/ r.eq = "T")
       /\ (r.ge = "T") = (r.gt = "T" \/ r.eq = "T")
       /\ (r.lt = "T") = (s.gt = "T")                                           \* a<b iff b>a
  /\ r.ia = r.ib /\ ~r.nan => r.eq = "T"                                        \* reflexive except NaN
  /\ r.nan => r.eq = "F" /\ r.lt # "T" /\ r.gt # "T" /\ r.le # "T" /\ r.ge # "T" \* NaN unordered, unequal to everything

\* transitivity of <= and of == through every third value
TransOK(r) ==
  \A k \in 0..(N - 1) :
    LET s == At(r.ib, k) t == At(r.ia, k) IN
    /\ (r.le = "T" /\ s.le = "T") => t.le = "T"
    /\ (r.lt = "T" /\ s.le = "T") => t.lt = "T"
    /\ (r.eq = "T" /\ s.eq = "T" /\ ~r.mapnum) => t.eq = "T"

Init == l = 1 /\ bad = << >>
Next == /\ l <= Len(Rec) /\ l' = l + 1
        /\ bad' = IF PairOK(Rec[l]) /\ TransOK(Rec[l]) THEN bad ELSE Append(bad, Rec[l].id)
Spec == Init /\ [][Next]_vars
Report == (l = Len(Rec) + 1) => PrintT(<< "RESULT", ToJson([cases |-> Len(Rec), bad |-> bad, dev |-> 0]) >>)
=============================================================================
