SPECIFICATION Spec
CONSTANT Triples = TRUE
INVARIANTS PairLaws TripleLaws
CHECK_DEADLOCK FALSE
