------------------------------ MODULE CelCmpMC ------------------------------
(***************************************************************************)
(* Coherence of the specification's own equality and ordering (CelValue    *)
(* Eq / Cmp, on exact denotations) over a boundary set: every pair and     *)
(* every triple is a state.                                                *)
(***************************************************************************)
EXTENDS Naturals, Integers, Sequences, FiniteSets, TLC, CelValue
LOCAL Z == INSTANCE BigInt
LOCAL BF == INSTANCE CelBuiltins
CONSTANT Triples

P(k) == Z!Pow2(k)
One == Z!FromInt(1)
Pool ==
  { VInt(Z!Neg(P(63))), VInt(Z!Neg(Z!Add(P(53), One))), VInt(Z!Neg(P(53))), VIntN(-1), VIntN(0), VIntN(1), VIntN(2),
    VInt(P(53)), VInt(Z!Add(P(53), One)), VInt(Z!Sub(P(63), One)),
    VUintN(0), VUintN(1), VUint(Z!Add(P(53), One)), VUint(Z!Sub(P(63), One)), VUint(P(63)), VUint(Z!Sub(P(64), One)),
    VDbl(<<32760, 0, 0, 0>>), VDbl(<<32752, 0, 0, 0>>), VDbl(<<65520, 0, 0, 0>>), VDbl(<<0, 0, 0, 0>>), VDbl(<<32768, 0, 0, 0>>),
    VDbl(<<16368, 0, 0, 0>>), VDbl(<<49136, 0, 0, 0>>), VDbl(<<16352, 0, 0, 0>>), VDbl(<<16376, 0, 0, 0>>),
    VDbl(<<17216, 0, 0, 0>>), VDbl(<<17216, 0, 0, 1>>), VDbl(<<17376, 0, 0, 0>>), VDbl(<<50144, 0, 0, 0>>), VDbl(<<17392, 0, 0, 0>>),
    VDbl(<<0, 0, 0, 1>>), VDbl(<<32311, 58428, 34816, 30108>>),
    \* negative non-integers next to small negative integers: -1.5 -0.5 -2.5 -3.25 with -2 and -3
    VDbl(<<49144, 0, 0, 0>>), VDbl(<<49120, 0, 0, 0>>), VDbl(<<49156, 0, 0, 0>>), VDbl(<<49162, 0, 0, 0>>), VIntN(-2), VIntN(-3),
    VStr(<< >>), VStr(<<97>>), VStr(<<97, 98>>), VStr(<<98>>), VStr(<<233>>), VStr(<<128049>>), VStr(<<65535>>),
    VBool(FALSE), VBool(TRUE), VNull, VBytes(<< >>), VBytes(<<97>>),
    VList(<< >>), VList(<<VIntN(1)>>), VList(<<VUintN(1)>>), VList(<<VDbl(<<32760, 0, 0, 0>>)>>),
    VMap(<< >>), VMap(<< <<VStr(<<97>>), VIntN(1)>> >>), VMap(<< <<VStr(<<97>>), VUintN(1)>> >>),
    VDur(Z!FromInt(0)), VDur(Z!FromInt(1)), VTs(Z!FromInt(0), 0), VTs(Z!FromInt(0), 3600) }

VARIABLES a, b, c
vars == << a, b, c >>
Init == a \in Pool /\ b \in Pool /\ (IF Triples THEN c \in Pool ELSE c = VNull)
Next == UNCHANGED vars
Spec == Init /\ [][Next]_vars

Ordered(x, y) == Cmp(x, y) \in {"lt", "eq", "gt"}
Flip(r) == CASE r = "lt" -> "gt" [] r = "gt" -> "lt" [] OTHER -> r

PairLaws ==
  /\ Cmp(a, b) = Flip(Cmp(b, a))                                   \* a<b iff b>a; comparability is symmetric
  /\ Eq(a, b) = Eq(b, a)
  /\ Ordered(a, b) => (Eq(a, b) <=> Cmp(a, b) = "eq")               \* exactly one of <, ==, >
  /\ (Cmp(a, b) = "eq") => Eq(a, b)
  /\ (a.t = "dbl" /\ a.b = <<32760, 0, 0, 0>>) => (~Eq(a, b) /\ Cmp(a, b) \in {"un", "inc"})    \* NaN
  /\ (~IsNum(a) \/ ~IsNum(b)) /\ a.t # b.t => (~Eq(a, b) /\ Cmp(a, b) = "inc")                   \* unrelated kinds
  /\ (Ordered(a, b) /\ a.t \notin {"bytes", "null"}) =>           \* min / max return a member that bounds the other
        LET mn == BF!MinMax(<< a, b >>, FALSE) mx == BF!MinMax(<< a, b >>, TRUE) IN
        /\ mn.k = "v" /\ mx.k = "v"
        /\ (Same(mn.v, a) \/ Same(mn.v, b)) /\ Cmp(mn.v, a) # "gt" /\ Cmp(mn.v, b) # "gt"
        /\ (Same(mx.v, a) \/ Same(mx.v, b)) /\ Cmp(mx.v, a) # "lt" /\ Cmp(mx.v, b) # "lt"
TripleLaws ==
  Triples =>
    /\ (Cmp(a, b) \in {"lt", "eq"} /\ Cmp(b, c) \in {"lt", "eq"}) => Cmp(a, c) \in {"lt", "eq"}     \* transitivity of <=
    /\ (Cmp(a, b) = "lt" /\ Cmp(b, c) \in {"lt", "eq"}) => Cmp(a, c) = "lt"
    /\ (Eq(a, b) /\ Eq(b, c) /\ ~(HasNumKeyMap(a))) => Eq(a, c)
=============================================================================
