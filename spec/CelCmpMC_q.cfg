SPECIFICATION Spec
CONSTANT Triples = FALSE
INVARIANTS PairLaws TripleLaws
CHECK_DEADLOCK FALSE
