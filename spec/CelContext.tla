----------------------------- MODULE CelContext -----------------------------
(***************************************************************************)
(* The context machine: a chain of scopes (chain[1] is the root), a        *)
(* function registry that lives in the root only.  Operations:             *)
(*   Define(n, v)   define or redefine n in the innermost scope            *)
(*   Open           open an inner scope (new_inner_scope)                  *)
(*   Close          drop the innermost scope (only it can be dropped)      *)
(*   RegisterFn(n)  register a function (effective on the root only)       *)
(* Observers: Lookup(n), HasFn(n).                                         *)
(* A scope is a function from the names it defines to values.              *)
(***************************************************************************)
EXTENDS Naturals, Sequences, FiniteSets
CONSTANTS Names, Values, MaxLevels

VARIABLES chain, fnreg, snaps
cvars == << chain, fnreg, snaps >>

Undeclared == "U"
EmptyScope == [n \in {} |-> 0]

RECURSIVE LookupIn(_, _, _)
LookupIn(ch, n, lvl) == IF lvl = 0 THEN Undeclared
                        ELSE IF n \in DOMAIN ch[lvl] THEN ch[lvl][n]
                        ELSE LookupIn(ch, n, lvl - 1)
Lookup(n) == LookupIn(chain, n, Len(chain))
HasFn(n) == n \in fnreg
LookupAll(ch) == [n \in Names |-> LookupIn(ch, n, Len(ch))]

CInit == chain = << EmptyScope >> /\ fnreg = {} /\ snaps = << >>

Bind(sc, n, v) == [m \in DOMAIN sc \cup {n} |-> IF m = n THEN v ELSE sc[m]]

Define(n, v) == /\ chain' = [chain EXCEPT ![Len(chain)] = Bind(@, n, v)]
                /\ UNCHANGED << fnreg, snaps >>
\* snaps remembers what every lookup gave when the scope was opened (history, for CloseRestores)
Open == /\ Len(chain) < MaxLevels
        /\ chain' = Append(chain, EmptyScope)
        /\ snaps' = Append(snaps, LookupAll(chain))
        /\ UNCHANGED fnreg
Close == /\ Len(chain) > 1
         /\ chain' = SubSeq(chain, 1, Len(chain) - 1)
         /\ snaps' = SubSeq(snaps, 1, Len(snaps) - 1)
         /\ UNCHANGED fnreg
\* functions can only be added to the root context; on an inner scope the call has no effect
RegisterFn(n) == /\ fnreg' = IF Len(chain) = 1 THEN fnreg \cup {n} ELSE fnreg
                 /\ UNCHANGED << chain, snaps >>

CNext == \/ \E n \in Names, v \in Values : Define(n, v)
         \/ Open \/ Close
         \/ \E n \in Names : RegisterFn(n)

-----------------------------------------------------------------------------
\* InnermostWins: a lookup returns the value from the innermost scope defining the name
InnermostWins ==
  \A n \in Names :
    LET defs == { i \in 1..Len(chain) : n \in DOMAIN chain[i] } IN
    IF defs = {} THEN Lookup(n) = Undeclared
    ELSE Lookup(n) = chain[CHOOSE i \in defs : \A j \in defs : j <= i][n]
\* ParentsFrozen: no operation changes a scope other than the innermost one
ParentsFrozen == [][\A i \in 1..(Len(chain) - 1) : i <= Len(chain') => chain'[i] = chain[i]]_cvars
\* ParentsAsOpened: while an inner scope is open, what its parents answer is what they answered when it was opened
ParentsAsOpened == \A i \in 1..Len(snaps) : LookupAll(SubSeq(chain, 1, i)) = snaps[i]
\* CloseRestores: after Close every lookup is what it was before the matching Open
CloseRestores == [][(Len(chain') < Len(chain)) => LookupAll(chain') = snaps[Len(snaps)]]_cvars
\* NamespacesDisjoint: defining a variable never changes the registry, registering never changes a lookup
NamespacesDisjoint == [][(fnreg' # fnreg => chain' = chain) /\ (chain' # chain => fnreg' = fnreg)]_cvars
=============================================================================
