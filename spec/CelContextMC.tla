---------------------------- MODULE CelContextMC ----------------------------
(* Model-checking instance of CelContext.  `path` (the operations from the initial state, hidden
   from the fingerprint by VIEW) lets every transition of the state graph be emitted as an
   operation sequence for replay against a real Context: with one worker TLC searches breadth-first,
   so the stored path of a state is a shortest one. *)
EXTENDS CelContext, TLC, Json
CONSTANT EmitEdges
VARIABLE path
vars == << chain, fnreg, snaps, path >>

Init == CInit /\ path = << >>
Op(o, n, v) == [op |-> o, n |-> n, v |-> v]
Next == \/ \E n \in Names, v \in Values : Define(n, v) /\ path' = Append(path, Op("define", n, v))
        \/ Open /\ path' = Append(path, Op("open", "", 0))
        \/ Close /\ path' = Append(path, Op("close", "", 0))
        \/ \E n \in Names : RegisterFn(n) /\ path' = Append(path, Op("addfn", n, 0))
Spec == Init /\ [][Next]_vars
View == << chain, fnreg, snaps >>
\* evaluated once for every transition TLC generates
EmitEdge == EmitEdges => PrintT(<< "VEC", ToJson([ops |-> path']) >>)
=============================================================================
