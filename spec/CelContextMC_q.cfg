SPECIFICATION Spec
CONSTANTS
  Names = {"a", "b"}
  Values = {1, 2}
  MaxLevels = 3
  EmitEdges = TRUE
INVARIANTS InnermostWins ParentsAsOpened
PROPERTIES ParentsFrozen CloseRestores NamespacesDisjoint
VIEW View
ACTION_CONSTRAINT EmitEdge
CHECK_DEADLOCK FALSE
