--------------------------- MODULE CelContextTrace ---------------------------
(***************************************************************************)
(* Trace specification for context histories: each record is a sequence    *)
(* of operations applied to a real Context together with what every lookup *)
(* (variable and function namespace) answered after every operation and    *)
(* while the scopes were being dropped at the end.  The operations are     *)
(* replayed on the CelContext model (same operators, as pure functions of  *)
(* the state) and every observation must equal the model's.                *)
(***************************************************************************)
EXTENDS Naturals, Sequences, FiniteSets, TLC, Json, IOUtils
Rec == ndJsonDeserialize(IOEnv.TRACE)
Names == {"a", "b", "c"}
Undeclared == "U"

\* model state as a value: [chain, fnreg]
S0 == [chain |-> << [n \in {} |-> ""] >>, fnreg |-> {}]
Bind(sc, n, v) == [m \in DOMAIN sc \cup {n} |-> IF m = n THEN v ELSE sc[m]]
RECURSIVE LookupIn(_, _, _)
LookupIn(ch, n, lvl) == IF lvl = 0 THEN Undeclared
                        ELSE IF n \in DOMAIN ch[lvl] THEN ch[lvl][n] ELSE LookupIn(ch, n, lvl - 1)
Step(s, o) ==
  CASE o.op = "define" -> [s EXCEPT !.chain[Len(s.chain)] = Bind(@, o.n, ToString(o.v))]
    [] o.op = "open"   -> [s EXCEPT !.chain = Append(@, [n \in {} |-> ""])]
    [] o.op = "close"  -> [s EXCEPT !.chain = SubSeq(@, 1, Len(@) - 1)]
    [] o.op = "addfn"  -> IF Len(s.chain) = 1 THEN [s EXCEPT !.fnreg = @ \cup {o.n}] ELSE s
ObsOK(s, ob) == \A n \in Names : /\ ob.vars[n] = LookupIn(s.chain, n, Len(s.chain))
                                 /\ ob.fns[n] = (n \in s.fnreg)
RECURSIVE Replay(_, _, _, _)
Replay(s, ops, obs, i) ==
  IF i > Len(ops) THEN [ok |-> TRUE, s |-> s]
  ELSE LET s2 == Step(s, ops[i]) IN
       IF ObsOK(s2, obs[i]) THEN Replay(s2, ops, obs, i + 1) ELSE [ok |-> FALSE]
\* dropping the remaining inner scopes one by one restores what their parents answered
RECURSIVE Unwind(_, _, _)
Unwind(s, un, i) ==
  IF i > Len(un) THEN TRUE
  ELSE LET s2 == [s EXCEPT !.chain = SubSeq(@, 1, Len(@) - 1)] IN ObsOK(s2, un[i]) /\ Unwind(s2, un, i + 1)

CaseOK(r) ==
  /\ ~r.panic
  /\ Len(r.obs) = Len(r.ops)
  /\ LET x == Replay(S0, r.ops, r.obs, 1) IN
     x.ok /\ Len(r.unwind) = Len(x.s.chain) - 1 /\ Unwind(x.s, r.unwind, 1)

VARIABLES l, bad
vars == << l, bad >>
Init == l = 1 /\ bad = << >>
Next == /\ l <= Len(Rec) /\ l' = l + 1
        /\ bad' = IF CaseOK(Rec[l]) THEN bad ELSE Append(bad, Rec[l].id)
Spec == Init /\ [][Next]_vars
Report == (l = Len(Rec) + 1) => PrintT(<< "RESULT", ToJson([cases |-> Len(Rec), bad |-> bad, dev |-> 0]) >>)
=============================================================================
