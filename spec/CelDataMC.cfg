SPECIFICATION Spec
INVARIANTS Shape KeysStrict Total RoundTrip Commutes
CHECK_DEADLOCK FALSE
