----------------------------- MODULE CelDataMC -----------------------------
(***************************************************************************)
(* Theorems of CelSerde / CelJson checked by TLC over all terms, values    *)
(* and documents of nesting depth <= 2 over small leaf alphabets (each is  *)
(* one initial state):                                                     *)
(*  Shape       the value converted from a term has the term's shape       *)
(*  KeysStrict  unsupported key kinds are errors, never values             *)
(*  Total       Export is a document or an error; an error iff an excluded *)
(*              value (function, duration beyond 64-bit ns) occurs         *)
(*  RoundTrip   Import(Export(v)) == v on JSON-native values               *)
(*  Commutes    Export(ToValue(doc as serde_json presents it)) = doc       *)
(***************************************************************************)
EXTENDS Naturals, Integers, Sequences, FiniteSets, TLC, CelValue
SD == INSTANCE CelSerde
JS == INSTANCE CelJson
LOCAL Z == INSTANCE BigInt

I(s, k) == [s |-> s, n |-> Z!FromInt(k)]
TLeaves == { [s |-> "bool", v |-> TRUE], I("i8", -1), I("i64", 5), I("u8", 1), I("u64", 7), [s |-> "f64", b |-> <<16376, 0, 0, 0>>],
             [s |-> "char", cp |-> <<97>>], [s |-> "str", cp |-> <<107, 49>>], [s |-> "bytes", b |-> <<0, 255>>], [s |-> "none"], [s |-> "unit"],
             [s |-> "unit_struct", name |-> "A"], [s |-> "unit_variant", variant |-> <<86, 49>>] }
Wrap(S) == { [s |-> "some", x |-> t] : t \in S } \cup { [s |-> "newtype_struct", name |-> "A", x |-> t] : t \in S }
            \cup { [s |-> "newtype_variant", variant |-> <<86, 50>>, x |-> t] : t \in S }
            \cup { [s |-> k, e |-> << t >>] : t \in S, k \in {"seq", "tuple"} }
            \cup { [s |-> "tuple_struct", name |-> "B", e |-> << t, t >>] : t \in S }
            \cup { [s |-> "tuple_variant", variant |-> <<107>>, e |-> << t >>] : t \in S }
            \cup { [s |-> "struct", name |-> "A", f |-> << << <<97>>, t >> >>] : t \in S }
            \cup { [s |-> "struct_variant", variant |-> <<86, 49>>, f |-> << << <<98>>, t >> >>] : t \in S }
Pairs(S, K) == { [s |-> "map", e |-> << << k, t >> >>] : k \in K, t \in S }
T1 == TLeaves \cup Wrap(TLeaves) \cup Pairs(TLeaves, TLeaves)
T2 == T1 \cup Wrap(T1) \cup Pairs(T1, TLeaves)
       \cup { [s |-> "seq", e |-> << a, b >>] : a \in TLeaves, b \in T1 }
       \cup { [s |-> "map", e |-> << << k1, a >>, << k2, b >> >>] : k1 \in {I("i8", -1), [s |-> "str", cp |-> <<107, 49>>]}, k2 \in {I("u8", 1), [s |-> "str", cp |-> <<107, 49>>]}, a \in TLeaves, b \in TLeaves }

VLeaves == { VNull, VBool(TRUE), VIntN(-3), VUintN(3), VDbl(<<16376, 0, 0, 0>>), VDbl(<<32760, 0, 0, 0>>), VStr(<<97>>), VStr(<<49>>), VBytes(<<0, 255, 7>>), VBytes(<< >>),
             VDur(Z!FromInt(5)), VDur(Z!Pow2(63)), VTs(Z!FromInt(0), 3600), VFn("size") }
VKeys == { VIntN(1), VUintN(1), VStr(<<49>>), VBool(TRUE), VStr(<<116, 114, 117, 101>>) }
V1 == VLeaves \cup { VList(<< a >>) : a \in VLeaves } \cup { VMap(<< << k, a >> >>) : k \in VKeys, a \in VLeaves }
V2 == V1 \cup { VList(<< a, b >>) : a \in VLeaves, b \in V1 } \cup { VMap(<< << p[1], a >>, << p[2], b >> >>) : p \in { q \in VKeys \X VKeys : q[1] # q[2] }, a \in VLeaves, b \in {VNull, VIntN(-3)} }
       \cup { VMap(<< << k, a >> >>) : k \in VKeys, a \in V1 }

DLeaves == { JS!JNull, JS!JBool(FALSE), JS!JInt(Z!FromInt(-4)), JS!JInt(Z!FromInt(4)), JS!JDbl(<<16376, 0, 0, 0>>), JS!JStr(<<97>>) }
D1 == DLeaves \cup { JS!JArr(<< a >>) : a \in DLeaves } \cup { JS!JObj(<< << <<97>>, a >> >>) : a \in DLeaves }
D2 == D1 \cup { JS!JArr(<< a, b >>) : a \in D1, b \in DLeaves } \cup { JS!JObj(<< << <<97>>, a >>, << <<98>>, b >> >>) : a \in D1, b \in DLeaves }

VARIABLES kind, x
vars == << kind, x >>
Init == \/ (kind = "term" /\ x \in T2) \/ (kind = "value" /\ x \in V2) \/ (kind = "doc" /\ x \in D2)
Next == UNCHANGED vars
Spec == Init /\ [][Next]_vars

\* declarative shape relation between a term and a value
RECURSIVE ShapeOK(_, _)
ShapeOK(t, v) ==
  CASE t.s \in SD!Signed -> v.t = "int" /\ v.n = t.n
    [] t.s \in SD!Unsigned -> v.t = "uint" /\ v.n = t.n
    [] t.s \in {"f32", "f64"} -> v.t = "dbl"
    [] t.s = "bool" -> v = VBool(t.v)
    [] t.s \in {"char", "str"} -> v = VStr(t.cp)
    [] t.s = "bytes" -> v = VBytes(t.b)
    [] t.s \in {"none", "unit", "unit_struct"} -> v = VNull
    [] t.s \in {"some", "newtype_struct"} -> ShapeOK(t.x, v)
    [] t.s = "unit_variant" -> v = VStr(t.variant)
    [] t.s \in {"seq", "tuple", "tuple_struct"} -> v.t = "list" /\ Len(v.e) = Len(t.e) /\ \A i \in 1..Len(t.e) : ShapeOK(t.e[i], v.e[i])
    [] t.s = "newtype_variant" -> v.t = "map" /\ Len(v.e) = 1 /\ v.e[1][1] = VStr(t.variant) /\ ShapeOK(t.x, v.e[1][2])
    [] t.s = "tuple_variant" -> v.t = "map" /\ Len(v.e) = 1 /\ v.e[1][1] = VStr(t.variant) /\ v.e[1][2].t = "list" /\ Len(v.e[1][2].e) = Len(t.e)
    [] t.s = "struct" -> v.t = "map" /\ \A i \in 1..Len(t.f) : \E k \in 1..Len(v.e) : v.e[k][1] = VStr(t.f[i][1])
    [] t.s = "struct_variant" -> v.t = "map" /\ Len(v.e) = 1 /\ v.e[1][1] = VStr(t.variant) /\ v.e[1][2].t = "map"
    [] t.s = "map" -> v.t = "map" /\ Len(v.e) <= Len(t.e) /\ \A k \in 1..Len(v.e) : IsKeyKind(v.e[k][1])
    [] OTHER -> FALSE
Shape == kind = "term" => LET r == SD!ToValue(x) IN r.ok => ShapeOK(x, r.v)
KeyKindOK(t) == t.s \in SD!Signed \cup SD!Unsigned \cup {"bool", "char", "str", "unit_variant"} \/ (t.s \in {"some", "newtype_struct"} /\ SD!ToKey(t.x).ok)
KeysStrict == (kind = "term" /\ x.s = "map") => (SD!ToValue(x).ok => \A i \in 1..Len(x.e) : KeyKindOK(x.e[i][1]))

RECURSIVE Excluded(_)
Excluded(v) == CASE v.t = "fn" -> TRUE
                 [] v.t = "dur" -> ~(LET NMx == INSTANCE Num64 IN NMx!InI64(v.n))
                 [] v.t = "list" -> \E i \in 1..Len(v.e) : Excluded(v.e[i])
                 [] v.t = "map" -> \E i \in 1..Len(v.e) : Excluded(v.e[i][2])
                 [] OTHER -> FALSE
Total == kind = "value" => (JS!Export(x).ok <=> ~Excluded(x))
RoundTrip == (kind = "value" /\ JS!JsonNative(x)) => LET e == JS!Export(x) IN e.ok /\ (~e.amb => Eq(JS!Import(e.j), x))
Commutes == kind = "doc" => LET e == JS!Export(JS!Import(x)) IN e.ok /\ JS!JSame(x, e.j)
=============================================================================
