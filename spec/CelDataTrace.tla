---------------------------- MODULE CelDataTrace ----------------------------
(***************************************************************************)
(* Trace specification for host data conversion (C17) and JSON export      *)
(* (C18).  Records:                                                        *)
(*  ser     a = serde term, out = to_value's outcome, ctx_same, square     *)
(*  serjson a = serde_json document, out = to_value(doc), back = json()    *)
(*  json    a = CEL value, out = json()'s outcome, back = to_value(json)   *)
(***************************************************************************)
EXTENDS Naturals, Integers, Sequences, FiniteSets, TLC, TLCExt, Json, IOUtils, CelValue
SD == INSTANCE CelSerde
JS == INSTANCE CelJson

Rec == ndJsonDeserialize(IOEnv.TRACE)
VARIABLES l, bad, ndev
vars == << l, bad, ndev >>

NoPanic(o) == o.k # "panic"

\* to_value(term)
TermDevFlag(x) == "dev" \in DOMAIN x /\ x.dev
SerOK(r) ==
  LET x == SD!ToValue(r.a) IN
  /\ NoPanic(r.out)
  /\ r.out2.k = r.out.k /\ (r.out.k = "v" => Same(r.out.v, r.out2.v))   \* Context::add_variable agrees with to_value
  /\ \/ TermDevFlag(x) \/ SD!UsesMarker(r.a)                 \* marker newtypes with unusual content: value or error
     \/ (x.ok /\ r.out.k = "v" /\ Same(x.v, r.out.v))
     \/ (~x.ok /\ r.out.k = "e")
  \* converting and then exporting equals serialising directly with serde_json
  /\ ("square" \in DOMAIN r /\ ~SD!UsesMarker(r.a) /\ SD!JsonRepresentable(r.a)) =>
        /\ NoPanic(r.square.cel)
        /\ (r.square.cel.k = "j" => JS!JSame(r.square.direct, r.square.cel.j) \/ JS!JSame(r.square.cel.j, r.square.direct)
                                    \/ (x.ok /\ JS!Export(x.v).ok /\ JS!Export(x.v).amb))
\* serde_json documents: import, then export gives the document back
SerJsonOK(r) ==
  /\ r.out.k = "v" /\ Same(JS!Import(r.a), r.out.v)
  /\ r.back.k = "j" /\ JS!JSame(r.a, r.back.j)
\* json(value)
JsonOK(r) ==
  LET x == JS!Export(r.a) IN
  /\ NoPanic(r.out)
  /\ IF x.ok THEN /\ r.out.k = "j"
                  /\ (x.amb \/ JS!JSame(x.j, r.out.j))
                  /\ (JS!JsonNative(r.a) /\ ~x.amb) => (r.back.k = "v" /\ Eq(r.back.v, r.a))     \* import(export(v)) == v
     ELSE r.out.k = "e"                                         \* "an error": which of the two variants is not pinned

\* the public Duration / Timestamp wrappers convert to the duration / timestamp they hold (0: alone, 1: in a
\* sequence, 2: as a map value); a duration beyond 64-bit nanoseconds may also be refused
WrapOK(r) ==
  /\ NoPanic(r.out)
  /\ LET exp == CASE r.wrap = 0 -> r.a [] r.wrap = 1 -> VList(<< r.a >>) [] r.wrap = 2 -> VMap(<< << VStr(<<100>>), r.a >> >>)
         wide == r.a.t = "dur" /\ ~(LET NMx == INSTANCE Num64 IN NMx!InI64(r.a.n))
         \* the wrapper travels as RFC 3339 text, which has no spelling for an offset that is not a whole number of minutes
         oddOffset == r.a.t = "ts" /\ r.a.off % 60 # 0 IN
     \/ (r.out.k = "v" /\ Same(exp, r.out.v))
     \/ ((wide \/ oddOffset) /\ r.out.k \in {"v", "e"})
CaseOK(r) == CASE r.op = "ser" -> SerOK(r) [] r.op = "serjson" -> SerJsonOK(r) [] r.op = "json" -> JsonOK(r) [] r.op = "wrap" -> WrapOK(r)

Init == l = 1 /\ bad = << >> /\ ndev = 0
Next == /\ l <= Len(Rec) /\ l' = l + 1
        /\ bad' = IF CaseOK(Rec[l]) THEN bad ELSE Append(bad, Rec[l].id)
        /\ UNCHANGED ndev
Spec == Init /\ [][Next]_vars
Report == (l = Len(Rec) + 1) => PrintT(<< "RESULT", ToJson([cases |-> Len(Rec), bad |-> bad, dev |-> 0]) >>)
=============================================================================
