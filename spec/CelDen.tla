------------------------------- MODULE CelDen -------------------------------
(***************************************************************************)
(* Declarative (compositional, big-step) reading of the properties over    *)
(* SURFACE trees: what an expression denotes and which host calls it must  *)
(* make, in which order.  Independent of the abstract machine's structure  *)
(* (no continuation stack, no comprehension desugaring: the five macros    *)
(* are defined directly as the folds the property states).  The model      *)
(* checker compares it with the machine on every program it builds.        *)
(*                                                                         *)
(* Den(e, env, F) = [k |-> "v", v, log, dev] | [k |-> "e", cs, name, log, dev] *)
(* env: sequence of scopes (as in CelEval); F: function registry.          *)
(***************************************************************************)
EXTENDS Naturals, Integers, Sequences, FiniteSets, CelValue
LOCAL EV == INSTANCE CelEval
LOCAL BF == INSTANCE CelBuiltins

OkD(v, log, dev)  == [k |-> "v", v |-> v, log |-> log, dev |-> dev]
ErD(cs, n, log, dev) == [k |-> "e", cs |-> cs, name |-> n, log |-> log, dev |-> dev]
IsOk(d) == d.k = "v"
\* prepend an earlier log / dev flag to a later denotation
After(log, dev, d) == [d EXCEPT !.log = log \o @, !.dev = @ \/ dev]
\* lift a value-level result (R/E) that happens after `log`
Lift(r, log, dev) == IF r.k = "v" THEN OkD(r.v, log, dev \/ r.dev) ELSE ErD(r.cs, "", log, dev \/ r.dev)
LiftN(r, log, dev, n) == IF r.k = "v" THEN OkD(r.v, log, dev \/ r.dev) ELSE ErD(r.cs, n, log, dev \/ r.dev)

Truth(v) == Dev_Truthiness(v)
NB(v) == ~IsBool(v)          \* "not a bool": outside the typed fragment

RECURSIVE Den(_, _, _)
RECURSIVE DenSeq(_, _, _, _, _, _)       \* evaluate es[i..] left to right: [ok, vals, log, dev] or error denotation
RECURSIVE DenArgs(_, _, _, _, _, _, _, _, _)
RECURSIVE Fold(_, _, _, _, _, _, _, _, _)

\* left-to-right evaluation of a sequence of expressions; stops at the first error
DenSeq(es, i, env, F, vals, acc) ==
  IF i > Len(es) THEN [ok |-> TRUE, vals |-> vals, log |-> acc.log, dev |-> acc.dev]
  ELSE LET d == Den(es[i], env, F) IN
       IF IsOk(d) THEN DenSeq(es, i + 1, env, F, Append(vals, d.v), [log |-> acc.log \o d.log, dev |-> acc.dev \/ d.dev])
       ELSE [ok |-> FALSE, err |-> After(acc.log, acc.dev, d)]

\* binding of receiver and arguments to the callee's parameters, in parameter order
DenArgs(call, this, sig, si, ai, got, env, F, acc) ==
  IF si > Len(sig) THEN [ok |-> TRUE, got |-> got, ai |-> ai, log |-> acc.log, dev |-> acc.dev]
  ELSE LET p == sig[si]
           fail == [ok |-> FALSE, err |-> ErD({"type"}, "", acc.log, acc.dev)]
           thisFail == [ok |-> FALSE, err |-> ErD({"type"}, "", acc.log, acc.dev \/ \E i \in 1..Len(call.args) : ~EV!IsPureArg(call.args[i]) /\ call.args[i].k # "id")]
           takeArg ==
             IF ai > Len(call.args) THEN fail
             ELSE LET d == Den(call.args[ai], env, F) IN
                  IF ~IsOk(d) THEN [ok |-> FALSE, err |-> After(acc.log, acc.dev, d)]
                  ELSE IF ~EV!Conv(d.v, p.ty) THEN [ok |-> FALSE, err |-> ErD({"type"}, "", acc.log \o d.log,
                                                                           acc.dev \/ d.dev \/ \E i \in (ai + 1)..Len(call.args) : ~EV!IsPureArg(call.args[i]) /\ call.args[i].k # "id")]
                  ELSE DenArgs(call, this, sig, si + 1, ai + 1, Append(got, d.v), env, F,
                               [log |-> acc.log \o d.log, dev |-> acc.dev \/ d.dev])
       IN
       CASE p.x = "this" -> IF this # EV!NoThis
                            THEN (IF EV!Conv(this, p.ty) THEN DenArgs(call, this, sig, si + 1, ai, Append(got, this), env, F, acc) ELSE thisFail)
                            ELSE takeArg
         [] p.x = "arg"  -> takeArg
         [] p.x = "args" -> LET s == DenSeq(call.args, 1, env, F, << >>, acc) IN
                            IF s.ok THEN DenArgs(call, this, sig, si + 1, ai, Append(got, VList(s.vals)), env, F, [log |-> s.log, dev |-> s.dev])
                            ELSE s
         [] p.x = "ident" -> IF ai <= Len(call.args) /\ call.args[ai].k = "id"
                             THEN DenArgs(call, this, sig, si + 1, ai + 1, Append(got, VStr(call.args[ai].ncp)), env, F, acc)
                             ELSE fail
         [] p.x = "expr"  -> IF ai <= Len(call.args) THEN DenArgs(call, this, sig, si + 1, ai + 1, Append(got, VNull), env, F, acc) ELSE fail

\* The fold behind every macro: visit the elements in order while `go` holds; body evaluated with
\* the iteration variable bound in a fresh innermost scope.  kind selects the combining rule.
\* state: acc (a value), returns a denotation of the final accumulator.
Fold(kind, items, i, var, args, env, F, accv, acc) ==
  IF i > Len(items) THEN OkD(accv, acc.log, acc.dev)
  ELSE
    LET env2 == Append(env, << << var, items[i] >> >>)
        b == Den(args[1], env2, F)
    IN
    IF ~IsOk(b) THEN After(acc.log, acc.dev, b)                 \* an error on a reached element aborts
    ELSE
      LET a2 == [log |-> acc.log \o b.log, dev |-> acc.dev \/ b.dev] IN
      CASE kind = "all" ->
             \* conjunction, stopping at the first element where the body is false
             IF Truth(b.v) THEN Fold(kind, items, i + 1, var, args, env, F, VBool(TRUE), [a2 EXCEPT !.dev = @ \/ NB(b.v)])
             ELSE OkD(VBool(FALSE), a2.log, a2.dev \/ NB(b.v))
        [] kind = "exists" ->
             IF Truth(b.v) THEN OkD(b.v, a2.log, a2.dev \/ NB(b.v))
             ELSE Fold(kind, items, i + 1, var, args, env, F, b.v, [a2 EXCEPT !.dev = @ \/ NB(b.v)])
        [] kind = "exists_one" ->
             \* counts satisfying elements; every element is visited
             IF Truth(b.v)
             THEN LET n == Arith("add", accv, VIntN(1)) IN
                  IF n.k = "v" THEN Fold(kind, items, i + 1, var, args, env, F, n.v, [a2 EXCEPT !.dev = @ \/ NB(b.v)])
                  ELSE ErD(n.cs, "", a2.log, a2.dev)
             ELSE Fold(kind, items, i + 1, var, args, env, F, accv, [a2 EXCEPT !.dev = @ \/ NB(b.v)])
        [] kind = "map" ->
             Fold(kind, items, i + 1, var, args, env, F, VList(Append(accv.e, b.v)), a2)
        [] kind = "filter" ->
             IF Truth(b.v) THEN Fold(kind, items, i + 1, var, args, env, F, VList(Append(accv.e, items[i])), [a2 EXCEPT !.dev = @ \/ NB(b.v)])
             ELSE Fold(kind, items, i + 1, var, args, env, F, accv, [a2 EXCEPT !.dev = @ \/ NB(b.v)])
        [] kind = "mapf" ->
             \* args[1] is the filter, args[2] the transform
             IF Truth(b.v)
             THEN LET tr == Den(args[2], env2, F) IN
                  IF ~IsOk(tr) THEN After(a2.log, a2.dev \/ NB(b.v), tr)
                  ELSE Fold(kind, items, i + 1, var, args, env, F, VList(Append(accv.e, tr.v)),
                            [log |-> a2.log \o tr.log, dev |-> a2.dev \/ tr.dev \/ NB(b.v)])
             ELSE Fold(kind, items, i + 1, var, args, env, F, accv, [a2 EXCEPT !.dev = @ \/ NB(b.v)])

Den(e, env, F) ==
  CASE e.k = "lit" -> OkD(e.v, << >>, FALSE)
    [] e.k = "id"  -> LET l == EV!Lookup(env, e.name) IN
                      IF l.found THEN OkD(l.v, << >>, FALSE) ELSE ErD({"undeclared"}, e.name, << >>, FALSE)
    [] e.k = "sel" -> LET d == Den(e.e, env, F) IN
                      IF ~IsOk(d) THEN d
                      ELSE LiftN(IF e.test THEN HasOp(d.v, e.fcp) ELSE SelectOp(d.v, e.fcp, e.field \in DOMAIN F), d.log, d.dev, e.field)
    [] e.k = "list" -> LET s == DenSeq(e.e, 1, env, F, << >>, [log |-> << >>, dev |-> FALSE]) IN
                       IF s.ok THEN OkD(VList(s.vals), s.log, s.dev) ELSE s.err
    [] e.k = "map" ->
         \* entries in source order, key before value
         LET RECURSIVE Go(_, _, _)
             Go(i, es, acc) ==
               IF i > Len(e.e) THEN OkD(VMap(es), acc.log, acc.dev)
               ELSE LET kd == Den(e.e[i][1], env, F) IN
                    IF ~IsOk(kd) THEN After(acc.log, acc.dev, kd)
                    ELSE IF ~IsKeyKind(kd.v) THEN ErD({"type"}, "", acc.log \o kd.log, acc.dev \/ kd.dev)
                    ELSE LET vd == Den(e.e[i][2], env, F)
                             a1 == [log |-> acc.log \o kd.log, dev |-> acc.dev \/ kd.dev] IN
                         IF ~IsOk(vd) THEN After(a1.log, a1.dev, vd)
                         ELSE Go(i + 1, MapInsert(es, kd.v, vd.v),
                                 [log |-> a1.log \o vd.log, dev |-> a1.dev \/ vd.dev \/ (FindKeyFrom(es, kd.v, 1, FALSE) # 0)])
         IN  Go(1, << >>, [log |-> << >>, dev |-> FALSE])
    [] e.k = "struct" -> ErD({"type"}, "", << >>, TRUE)
    [] e.k = "macro" ->
         LET r == Den(e.range, env, F) IN
         IF ~IsOk(r) THEN r
         ELSE IF r.v.t \notin {"list", "map"} THEN ErD({"type"}, "", r.log, TRUE)
         ELSE LET items == IF r.v.t = "list" THEN r.v.e ELSE [i \in 1..Len(r.v.e) |-> r.v.e[i][1]]
                  a0 == [log |-> r.log, dev |-> r.dev]
                  kind == IF e.m = "map" /\ Len(e.args) = 2 THEN "mapf" ELSE e.m
              IN
              (CASE kind = "all" -> Fold("all", items, 1, e.var, e.args, env, F, VBool(TRUE), a0)
                [] kind = "exists" -> Fold("exists", items, 1, e.var, e.args, env, F, VBool(FALSE), a0)
                [] kind = "exists_one" ->
                     LET c == Fold("exists_one", items, 1, e.var, e.args, env, F, VIntN(0), a0) IN
                     IF IsOk(c) THEN [c EXCEPT !.v = VBool(Eq(c.v, VIntN(1)))] ELSE c
                [] kind \in {"map", "filter", "mapf"} -> Fold(kind, items, 1, e.var, e.args, env, F, VList(<< >>), a0))
    [] e.k = "call" ->
         IF e.fn = "_?_:_" /\ Len(e.args) = 3 THEN
              LET c == Den(e.args[1], env, F) IN
              IF ~IsOk(c) THEN c
              ELSE After(c.log, c.dev \/ NB(c.v), Den(IF Truth(c.v) THEN e.args[2] ELSE e.args[3], env, F))
         ELSE IF e.fn = "_&&_" /\ Len(e.args) = 2 THEN
              LET a == Den(e.args[1], env, F) IN
              IF ~IsOk(a) THEN a
              ELSE IF ~Truth(a.v) THEN OkD(VBool(FALSE), a.log, a.dev \/ NB(a.v))       \* b is not evaluated
              ELSE LET b == Den(e.args[2], env, F) IN
                   IF ~IsOk(b) THEN After(a.log, a.dev \/ NB(a.v), b)
                   ELSE OkD(VBool(Truth(b.v)), a.log \o b.log, a.dev \/ b.dev \/ NB(a.v) \/ NB(b.v))
         ELSE IF e.fn = "_||_" /\ Len(e.args) = 2 THEN
              LET a == Den(e.args[1], env, F) IN
              IF ~IsOk(a) THEN a
              ELSE IF Truth(a.v) THEN OkD(a.v, a.log, a.dev \/ NB(a.v))                 \* b is not evaluated
              ELSE LET b == Den(e.args[2], env, F) IN
                   IF ~IsOk(b) THEN After(a.log, a.dev \/ NB(a.v), b)
                   ELSE OkD(b.v, a.log \o b.log, a.dev \/ b.dev \/ NB(a.v) \/ NB(b.v))
         ELSE IF e.fn \in DOMAIN EV!BinOps /\ Len(e.args) = 2 THEN
              LET a == Den(e.args[1], env, F) IN
              IF ~IsOk(a) THEN a
              ELSE LET b == Den(e.args[2], env, F) IN
                   IF ~IsOk(b) THEN After(a.log, a.dev, b)
                   ELSE Lift(EV!ApplyBin(EV!BinOps[e.fn], a.v, b.v), a.log \o b.log, a.dev \/ b.dev)
         ELSE IF e.fn \in EV!UnOps /\ Len(e.args) = 1 THEN
              LET a == Den(e.args[1], env, F) IN
              IF ~IsOk(a) THEN a ELSE Lift(EV!ApplyUn(e.fn, a.v), a.log, a.dev)
         ELSE IF e.fn \notin DOMAIN F THEN
              ErD({"undeclared"}, e.fn, << >>,
                  (e.tgt.k # "none" /\ ~EV!IsPureArg(e.tgt)) \/ \E i \in 1..Len(e.args) : ~EV!IsPureArg(e.args[i]))
         ELSE
              \* receiver first, then the arguments the callee's parameters ask for, left to right
              LET t == IF e.tgt.k = "none" THEN OkD(EV!NoThis, << >>, FALSE) ELSE Den(e.tgt, env, F) IN
              IF ~IsOk(t) THEN t
              ELSE LET fd == F[e.fn]
                       b == DenArgs(e, t.v, fd.sig, 1, 1, << >>, env, F, [log |-> t.log, dev |-> t.dev]) IN
                   IF ~b.ok THEN b.err
                   ELSE LET extra == (b.ai - 1) < Len(e.args) /\ ~(\E i \in 1..Len(fd.sig) : fd.sig[i].x = "args")
                        IN  IF fd.kind = "host"
                            THEN LiftN(EV!HostResult(fd.beh, b.got), Append(b.log, [f |-> e.fn, a |-> b.got]), b.dev \/ extra, e.fn)
                            ELSE LiftN(BF!Builtin(e.fn, b.got), b.log, b.dev \/ extra, e.fn)
=============================================================================
