----------------------------- MODULE CelDuration -----------------------------
(***************************************************************************)
(* Durations: Go's duration syntax and canonical rendering, on exact       *)
(* nanosecond counts (BigInt).                                             *)
(*   DurationString == [-+]? ( "0" | (Number Unit)+ )                      *)
(*   Number == digits | digits "." digits? | "." digits                    *)
(*   Unit   == "ns" | "us" | "µs" | "μs" | "ms" | "s" | "m" | "h"          *)
(* Everything else -- text left over, a missing unit, exponents, inf, nan, *)
(* spaces, the empty string -- is not a duration.                          *)
(***************************************************************************)
EXTENDS Naturals, Integers, Sequences, FiniteSets, CelValue
LOCAL N  == INSTANCE BigNat
LOCAL Z  == INSTANCE BigInt
LOCAL NM == INSTANCE Num64

IsDigit(c) == c >= 48 /\ c <= 57
\* length of the run of digits starting at position i
RECURSIVE DigitRun(_, _)
DigitRun(cp, i) == IF i <= Len(cp) /\ IsDigit(cp[i]) THEN 1 + DigitRun(cp, i + 1) ELSE 0
Digits(cp, i, n) == [k \in 1..n |-> cp[i + k - 1] - 48]

Nano == N!FromNat(1)
Micro == N!FromNat(1000)
Milli == N!FromNat(1000000)
Sec == N!FromNat(1000000000)
Min == N!MulLimb(Sec, 60)
Hour == N!MulLimb(Min, 60)

\* unit at position i: [ok, len, ns]
UnitAt(cp, i) ==
  LET c1 == IF i <= Len(cp) THEN cp[i] ELSE 0
      c2 == IF i + 1 <= Len(cp) THEN cp[i + 1] ELSE 0
  IN  IF c1 = 110 /\ c2 = 115 THEN [ok |-> TRUE, len |-> 2, ns |-> Nano]                    \* ns
      ELSE IF c1 \in {117, 181, 956} /\ c2 = 115 THEN [ok |-> TRUE, len |-> 2, ns |-> Micro, micro |-> c1] \* us, µs (U+00B5), μs (U+03BC)
      ELSE IF c1 = 109 /\ c2 = 115 THEN [ok |-> TRUE, len |-> 2, ns |-> Milli]              \* ms
      ELSE IF c1 = 115 THEN [ok |-> TRUE, len |-> 1, ns |-> Sec]
      ELSE IF c1 = 109 THEN [ok |-> TRUE, len |-> 1, ns |-> Min]
      ELSE IF c1 = 104 THEN [ok |-> TRUE, len |-> 1, ns |-> Hour]
      ELSE [ok |-> FALSE]

\* Terms from position i.  The exact value of the string is num / 10^scale nanoseconds, where each
\* term contributes (int*10^f + frac) * unit * 10^(scale - f) ... to keep it simple every term is
\* scaled to SCALE = 10^20 (fractions longer than 20 digits are outside the model: [ok |-> FALSE, long |-> TRUE]).
SCALE == 20
Pow10(k) == N!FromDigits([i \in 1..(k + 1) |-> IF i = 1 THEN 1 ELSE 0], 10)
RECURSIVE Terms(_, _, _, _)
Terms(cp, i, acc, count) ==
  IF i > Len(cp) THEN (IF count = 0 THEN [ok |-> FALSE, long |-> FALSE] ELSE [ok |-> TRUE, num |-> acc, count |-> count])
  ELSE LET ni == DigitRun(cp, i)
           hasDot == i + ni <= Len(cp) /\ cp[i + ni] = 46
           nf == IF hasDot THEN DigitRun(cp, i + ni + 1) ELSE 0
           j == i + ni + (IF hasDot THEN 1 + nf ELSE 0)
           u == UnitAt(cp, j)
       IN  IF ni + nf = 0 \/ ~u.ok THEN [ok |-> FALSE, long |-> FALSE]
           ELSE IF nf > SCALE \/ ni > 30 THEN [ok |-> FALSE, long |-> TRUE]
           ELSE LET ip == N!FromDigits(Digits(cp, i, ni), 10)
                    fp == IF nf = 0 THEN << >> ELSE N!FromDigits(Digits(cp, i + ni + 1, nf), 10)
                    \* (ip + fp / 10^nf) * unit, scaled by 10^SCALE
                    scaled == N!Add(N!Mul(N!Mul(ip, u.ns), Pow10(SCALE)), N!Mul(N!Mul(fp, u.ns), Pow10(SCALE - nf)))
                IN  Terms(cp, j + u.len, N!Add(acc, scaled), count + 1)

\* [ok, neg, num (exact value * 10^SCALE), count, plus, bare0] | [ok |-> FALSE, long]
Parse(cp) ==
  IF cp = << >> THEN [ok |-> FALSE, long |-> FALSE]
  ELSE LET signed == cp[1] \in {43, 45}
           body == IF signed THEN Tail(cp) ELSE cp
       IN  IF body = << 48 >> THEN [ok |-> TRUE, neg |-> FALSE, num |-> << >>, count |-> 1, plus |-> signed /\ cp[1] = 43, bare0 |-> TRUE, micro |-> FALSE]
           ELSE LET t == Terms(body, 1, << >>, 0) IN
                IF ~t.ok THEN t
                ELSE [ok |-> TRUE, neg |-> signed /\ cp[1] = 45, num |-> t.num, count |-> t.count, plus |-> signed /\ cp[1] = 43, bare0 |-> FALSE,
                      micro |-> \E k \in 1..Len(body) : body[k] \in {181, 956}]

\* duration(string): exact nanoseconds when the string denotes a whole number of them; a
\* sub-nanosecond remainder may be truncated or rounded (per term): any count within `count` of the exact value
DurationFn(v) ==
  IF v.t # "str" THEN E({"type", "fnerr"})
  ELSE LET p == Parse(v.cp) IN
       IF ~p.ok THEN (IF p.long THEN D(E({"fnerr", "overflow", "type"})) ELSE E({"fnerr", "overflow", "type"}))
       ELSE LET dm == N!DivMod(p.num, Pow10(SCALE))
                n == Z!Z(IF p.neg THEN -1 ELSE 1, dm[1])
                exact == N!IsZero(dm[2])
                r == IF ~NM!InI64(n) THEN (IF NM!InI64(Z!Add(n, Z!FromInt(p.count))) \/ NM!InI64(Z!Sub(n, Z!FromInt(p.count))) THEN D(E({"fnerr", "overflow", "type"})) ELSE E({"fnerr", "overflow", "type"}))
                     ELSE IF exact THEN R(VDur(n))
                     ELSE D(R(VDur(n)))          \* sub-nanosecond input: truncation or rounding
            IN  IF p.plus \/ p.bare0 \/ (p.micro /\ FALSE) THEN D(r) ELSE r      \* a leading '+' and the bare "0" are accepted either way

\* Go's Duration.String
DigitCp(ds) == [i \in 1..Len(ds) |-> 48 + ds[i]]
\* fraction digits of `frac` (< 10^prec) printed with exactly prec digits, trailing zeros trimmed, with the leading "."
RECURSIVE TrimZeros(_)
TrimZeros(ds) == IF ds # << >> /\ ds[Len(ds)] = 0 THEN TrimZeros(SubSeq(ds, 1, Len(ds) - 1)) ELSE ds
PadTo(ds, n) == [i \in 1..(n - Len(ds)) |-> 0] \o ds
FracText(frac, prec) ==
  LET ds == TrimZeros(PadTo(IF N!IsZero(frac) THEN << >> ELSE N!ToDigits(frac), prec))
  IN  IF ds = << >> THEN << >> ELSE << 46 >> \o DigitCp(ds)
NatText(n) == DigitCp(N!ToDigits(n))

Format(ns) ==
  LET u == ns.m
      sign == IF ns.s < 0 THEN << 45 >> ELSE << >>
  IN  IF N!IsZero(u) THEN << 48, 115 >>                                     \* "0s"
      ELSE IF N!Lt(u, Micro) THEN sign \o NatText(u) \o << 110, 115 >>      \* ns
      ELSE IF N!Lt(u, Milli) THEN LET dm == N!DivMod(u, Micro) IN sign \o NatText(dm[1]) \o FracText(dm[2], 3) \o << 181, 115 >>     \* µs
      ELSE IF N!Lt(u, Sec)   THEN LET dm == N!DivMod(u, Milli) IN sign \o NatText(dm[1]) \o FracText(dm[2], 6) \o << 109, 115 >>     \* ms
      ELSE LET sdm == N!DivMod(u, Sec)                   \* whole seconds, nanosecond fraction
               mdm == N!DivMod(sdm[1], << 60 >>)         \* whole minutes, seconds
               hdm == N!DivMod(mdm[1], << 60 >>)         \* hours, minutes
               secs == NatText(mdm[2]) \o FracText(sdm[2], 9) \o << 115 >>
           IN  IF N!IsZero(mdm[1]) THEN sign \o secs
               ELSE IF N!IsZero(hdm[1]) THEN sign \o NatText(hdm[2]) \o << 109 >> \o secs
               ELSE sign \o NatText(hdm[1]) \o << 104 >> \o NatText(hdm[2]) \o << 109 >> \o secs

\* string(duration)
ToStringDur(v) == IF NM!InI64(v.n) THEN R(VStr(Format(v.n))) ELSE D(R(VStr(Format(v.n))))
=============================================================================
