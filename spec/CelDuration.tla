----------------------------- MODULE CelDuration -----------------------------
EXTENDS Naturals, Integers, Sequences, FiniteSets, CelValue
LOCAL Z  == INSTANCE BigInt
\* placeholder until the duration grammar is specified (C15): outcome not pinned
DurationFn(v) == D(R(VDur(Z!Zero)))
=============================================================================
