SPECIFICATION Spec
INVARIANTS RoundTrip Shape
CHECK_DEADLOCK FALSE
