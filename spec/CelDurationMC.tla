---------------------------- MODULE CelDurationMC ----------------------------
(* Theorems of CelDuration checked by TLC over a boundary set and a grid of magnitudes:
   Parse(Format(n)) = n, Format(n) is recognised, Format's shape. *)
EXTENDS Naturals, Integers, Sequences, FiniteSets, TLC, CelValue
LOCAL Z == INSTANCE BigInt
LOCAL N == INSTANCE BigNat
DU == INSTANCE CelDuration
VARIABLE n
P10(k) == Z!FromNatB(DU!Pow10(k))
Mags == { Z!FromInt(0), Z!FromInt(1), Z!FromInt(999), Z!FromInt(1000), Z!FromInt(1001), Z!FromInt(1500), Z!FromInt(999999), Z!FromInt(1000000),
          Z!FromInt(1500000), Z!FromInt(999999999), P10(9), Z!Add(P10(9), Z!FromInt(1)), Z!Mul(Z!FromInt(15), P10(8)), Z!Sub(Z!Mul(Z!FromInt(60), P10(9)), Z!FromInt(1)),
          Z!Mul(Z!FromInt(60), P10(9)), Z!Mul(Z!FromInt(90), P10(9)), Z!Mul(Z!FromInt(3600), P10(9)), Z!Mul(Z!FromInt(5400), P10(9)),
          Z!Add(Z!Mul(Z!FromInt(3661), P10(9)), Z!FromInt(7000000)), Z!Sub(Z!Pow2(63), Z!FromInt(1)), Z!Sub(Z!Pow2(63), Z!FromInt(2)), Z!Pow2(62), Z!Pow2(53) }
       \cup { Z!Mul(Z!FromInt(k), P10(e)) : k \in {1, 7, 12, 123}, e \in 0..15 }
All == Mags \cup { Z!Neg(x) : x \in Mags } \cup { Z!Neg(Z!Pow2(63)) }
Init == n \in All
Next == UNCHANGED n
Spec == Init /\ [][Next]_n
RoundTrip == LET r == DU!DurationFn(VStr(DU!Format(n))) IN r.k = "v" /\ r.v = VDur(n) /\ ~r.dev
\* shape: optional '-', then digits/./units only, ends with 's'
Shape == LET f == DU!Format(n) IN
         /\ f[Len(f)] = 115
         /\ (n.s < 0) = (f[1] = 45)
         /\ \A i \in 1..Len(f) : f[i] \in (48..57) \cup {45, 46, 104, 109, 110, 115, 181}
=============================================================================
