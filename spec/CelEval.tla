------------------------------- MODULE CelEval -------------------------------
(***************************************************************************)
(* The abstract machine for CEL evaluation: control, continuation stack,   *)
(* scope chain, host-call log.  One rule per decision point of the         *)
(* evaluator.  StepSet(cfg, F) is the set of successor configurations (a   *)
(* singleton except where a map with unknown iteration order is ranged     *)
(* over); F is the function registry of the root context.                  *)
(*                                                                         *)
(* AST records (the public Expr shapes):                                   *)
(*   [k |-> "lit", v]  [k |-> "id", name, ncp]                             *)
(*   [k |-> "sel", e, field, fcp, test]                                    *)
(*   [k |-> "call", fn, tgt (AST or [k |-> "none"]), args]                 *)
(*   [k |-> "list", e]  [k |-> "map", e (Seq of <<keyAST, valueAST>>)]     *)
(*   [k |-> "comp", range, var, accu, init, cond, step, res]               *)
(*   [k |-> "struct"]                                                      *)
(***************************************************************************)
EXTENDS Naturals, Integers, Sequences, FiniteSets, CelValue
LOCAL ZZ == INSTANCE BigInt
LOCAL BF == INSTANCE CelBuiltins
LOCAL TMX == INSTANCE CelTime

NoThis == [t |-> "nothis"]
None   == [k |-> "none"]

-----------------------------------------------------------------------------
(* Scope chain: a sequence of scopes, env[1] the root; a scope is a sequence of
   <<name, value>> pairs with distinct names. *)
RECURSIVE ScopeFind(_, _, _)
ScopeFind(sc, name, i) == IF i > Len(sc) THEN 0 ELSE IF sc[i][1] = name THEN i ELSE ScopeFind(sc, name, i + 1)
ScopeBind(sc, name, v) == LET i == ScopeFind(sc, name, 1)
                          IN  IF i = 0 THEN Append(sc, << name, v >>) ELSE [sc EXCEPT ![i] = << name, v >>]
\* innermost scope that defines the name; 0 if none
RECURSIVE LookupLevel(_, _, _)
LookupLevel(env, name, lvl) ==
  IF lvl = 0 THEN 0
  ELSE IF ScopeFind(env[lvl], name, 1) # 0 THEN lvl
  ELSE LookupLevel(env, name, lvl - 1)
Lookup(env, name) ==
  LET lvl == LookupLevel(env, name, Len(env))
  IN  IF lvl = 0 THEN [found |-> FALSE]
      ELSE [found |-> TRUE, v |-> env[lvl][ScopeFind(env[lvl], name, 1)][2], lvl |-> lvl]
BindInner(env, name, v) == [env EXCEPT ![Len(env)] = ScopeBind(@, name, v)]

-----------------------------------------------------------------------------
(* Configurations *)
Eval(e)      == [m |-> "eval", e |-> e]
Ret(v)       == [m |-> "ret", v |-> v]
Raise(cs, n) == [m |-> "raise", cs |-> cs, name |-> n]
Ext(call, this, si, ai, got) == [m |-> "ext", call |-> call, this |-> this, si |-> si, ai |-> ai, got |-> got]

InitCfg(e, vars) == [ctrl |-> Eval(e), kont |-> << >>, env |-> << vars >>, log |-> << >>,
                     dev |-> FALSE, looked |-> {}]
Final(c) == c.kont = << >> /\ c.ctrl.m \in {"ret", "raise"}

Push(c, fr, e) == [c EXCEPT !.kont = << fr >> \o @, !.ctrl = Eval(e)]
Top(c)  == c.kont[1]
Pop(c)  == [c EXCEPT !.kont = Tail(@)]
SetCtrl(c, ctrl) == [c EXCEPT !.ctrl = ctrl]
MarkDev(c, d) == IF d THEN [c EXCEPT !.dev = TRUE] ELSE c

\* turn an operation result (R / E, with dev flag) into the next control
Result(c, r) == MarkDev(SetCtrl(c, IF r.k = "v" THEN Ret(r.v) ELSE Raise(r.cs, "")), r.dev)
\* the same, with the name an error carries (the missing key; the function that failed)
ResultN(c, r, n) == MarkDev(SetCtrl(c, IF r.k = "v" THEN Ret(r.v) ELSE Raise(r.cs, n)), r.dev)

BinOps == [ f \in {"_+_", "_-_", "_*_", "_/_", "_%_", "_==_", "_!=_", "_<_", "_<=_", "_>_", "_>=_", "@in", "_[_]"} |->
            CASE f = "_+_" -> "add" [] f = "_-_" -> "sub" [] f = "_*_" -> "mul" [] f = "_/_" -> "div"
              [] f = "_%_" -> "rem" [] f = "_==_" -> "eq" [] f = "_!=_" -> "ne" [] f = "_<_" -> "lt"
              [] f = "_<=_" -> "le" [] f = "_>_" -> "gt" [] f = "_>=_" -> "ge" [] f = "@in" -> "in"
              [] f = "_[_]" -> "idx" ]
UnOps == {"!_", "-_", "@not_strictly_false"}

\* timestamp arithmetic lives in CelTime (exact instants); everything else in CelValue!Arith
TimeArith(op, l, r) ==
  IF op = "add" /\ l.t = "ts" /\ r.t = "dur" THEN TMX!PlusDur(l, r, 1)
  ELSE IF op = "add" /\ l.t = "dur" /\ r.t = "ts" THEN TMX!PlusDur(r, l, 1)
  ELSE IF op = "sub" /\ l.t = "ts" /\ r.t = "dur" THEN TMX!PlusDur(l, r, -1)
  ELSE IF op = "sub" /\ l.t = "ts" /\ r.t = "ts" THEN TMX!Diff(l, r)
  ELSE Arith(op, l, r)
ApplyBin(op, l, r) ==
  CASE op \in {"add", "sub", "mul", "div", "rem"} -> TimeArith(op, l, r)
    [] op \in {"eq", "ne", "lt", "le", "gt", "ge"} -> Relation(op, l, r)
    [] op = "in"  -> Membership(l, r)
    [] op = "idx" -> IndexOp(l, r)

ApplyUn(op, v) ==
  CASE op = "!_" -> IF IsBool(v) THEN R(VBool(~v.v)) ELSE D(R(VBool(~Dev_Truthiness(v))))
    [] op = "-_" -> Negate(v)
    [] op = "@not_strictly_false" -> IF IsBool(v) THEN R(v) ELSE R(VBool(TRUE))

\* conversion of an extracted value to the declared parameter type
Conv(v, ty) ==
  IF ty = "any" THEN TRUE
  ELSE IF ty \in {"int", "uint", "dbl", "str", "bytes", "bool", "list", "dur", "ts"} THEN v.t = ty
  ELSE FALSE

IsPureArg(a) == a.k \in {"lit"}

\* permutations of 1..n as sequences
Perms(n) == { p \in [1..n -> 1..n] : \A i, j \in 1..n : i # j => p[i] # p[j] }

-----------------------------------------------------------------------------
(* Host / builtin invocation once every extraction has succeeded *)
HostResult(beh, got) ==
  CASE beh = "pack" -> R(VList(got))
    [] beh = "id1"  -> R(got[1])
    [] beh = "id2"  -> R(got[2])
    [] beh = "odd1" -> R(VBool(got[1].t = "int" /\ got[1].n.m # << >> /\ got[1].n.m[1] % 2 = 1))
    [] beh = "fail" -> E({"fnerr"})
    [] beh = "null" -> R(VNull)

Invoke(c, F) ==
  LET x    == c.ctrl
      fd   == F[x.call.fn]
      used == x.ai - 1
      extra == used < Len(x.call.args) /\ ~(\E i \in 1..Len(fd.sig) : fd.sig[i].x = "args")
      c1   == MarkDev(c, extra)
  IN  IF fd.kind = "host"
      THEN ResultN([c1 EXCEPT !.log = Append(@, [f |-> x.call.fn, a |-> x.got])], HostResult(fd.beh, x.got), x.call.fn)
      ELSE ResultN(c1, BF!Builtin(x.call.fn, x.got), x.call.fn)

-----------------------------------------------------------------------------
(* The step relation *)

\* start of the comprehension loop at element i (scope already open)
LoopAt(c, cm, items, i) ==
  IF i > Len(items) THEN Push(c, [f |-> "compRes"], cm.res)
  ELSE Push(c, [f |-> "compCond", c |-> cm, items |-> items, i |-> i], cm.cond)

EvalStep(c, F) ==
  LET e == c.ctrl.e IN
  CASE e.k = "lit" -> { SetCtrl(c, Ret(e.v)) }
    [] e.k = "id"  -> LET l == Lookup(c.env, e.name)
                          c1 == [c EXCEPT !.looked = @ \cup {<< "var", e.name >>}]
                      IN  { IF l.found THEN SetCtrl(c1, Ret(l.v)) ELSE SetCtrl(c1, Raise({"undeclared"}, e.name)) }
    [] e.k = "sel" -> { Push(c, [f |-> "sel", field |-> e.field, fcp |-> e.fcp, test |-> e.test], e.e) }
    [] e.k = "list" -> { IF e.e = << >> THEN SetCtrl(c, Ret(VList(<< >>)))
                         ELSE Push(c, [f |-> "list", es |-> e.e, i |-> 1, acc |-> << >>], e.e[1]) }
    [] e.k = "map" -> { IF e.e = << >> THEN SetCtrl(c, Ret(VMap(<< >>)))
                        ELSE Push(c, [f |-> "mapK", es |-> e.e, i |-> 1, acc |-> << >>], e.e[1][1]) }
    [] e.k = "comp" -> { Push(c, [f |-> "compInit", c |-> e], e.init) }
    [] e.k = "struct" -> { MarkDev(SetCtrl(c, Raise({"type"}, "")), TRUE) }
    [] e.k = "call" ->
         IF e.fn = "_?_:_" /\ Len(e.args) = 3 THEN { Push(c, [f |-> "cond", a |-> e.args[2], b |-> e.args[3]], e.args[1]) }
         ELSE IF e.fn = "_&&_" /\ Len(e.args) = 2 THEN { Push(c, [f |-> "and", r |-> e.args[2]], e.args[1]) }
         ELSE IF e.fn = "_||_" /\ Len(e.args) = 2 THEN { Push(c, [f |-> "or", r |-> e.args[2]], e.args[1]) }
         ELSE IF e.fn \in DOMAIN BinOps /\ Len(e.args) = 2 THEN { Push(c, [f |-> "binL", op |-> BinOps[e.fn], r |-> e.args[2]], e.args[1]) }
         ELSE IF e.fn \in UnOps /\ Len(e.args) = 1 THEN { Push(c, [f |-> "un", op |-> e.fn], e.args[1]) }
         ELSE LET c1 == [c EXCEPT !.looked = @ \cup {<< "fn", e.fn >>}] IN
              IF e.fn \notin DOMAIN F THEN
                 \* the registry is consulted before receiver and arguments are evaluated; a call
                 \* whose operands could themselves fail or log is not pinned down (envelope xii)
                 { MarkDev(SetCtrl(c1, Raise({"undeclared"}, e.fn)),
                           (e.tgt.k # "none" /\ ~IsPureArg(e.tgt)) \/ \E i \in 1..Len(e.args) : ~IsPureArg(e.args[i])) }
              ELSE IF e.tgt.k # "none" THEN { Push(c1, [f |-> "recv", call |-> e], e.tgt) }
              ELSE { SetCtrl(c1, Ext(e, NoThis, 1, 1, << >>)) }

\* A receiver / argument of the wrong kind: a type error.  Whether the remaining arguments (from index `from`)
\* are still evaluated first is not pinned (lazy extraction here, eager evaluation would be as good): if one of
\* them could raise or log, the outcome is left open (envelope xi).
ConvFail(c, call, from) ==
  MarkDev(SetCtrl(c, Raise({"type"}, "")), \E i \in from..Len(call.args) : ~IsPureArg(call.args[i]) /\ call.args[i].k # "id")

\* one extractor of the callee's signature
ExtStep(c, F) ==
  LET x == c.ctrl
      call == x.call
      sig == F[call.fn].sig
  IN  IF x.si > Len(sig) THEN { Invoke(c, F) }
      ELSE LET p == sig[x.si]
               next(v, ai) == SetCtrl(c, Ext(call, x.this, x.si + 1, ai, Append(x.got, v)))
           IN
           CASE p.x = "this" ->
                  IF x.this # NoThis THEN
                       { IF Conv(x.this, p.ty) THEN next(x.this, x.ai) ELSE ConvFail(c, call, 1) }
                  ELSE IF x.ai > Len(call.args) THEN { SetCtrl(c, Raise({"type"}, "")) }     \* missing argument or target
                  ELSE { Push(c, [f |-> "xarg", x |-> x, ty |-> p.ty, mask |-> TRUE], call.args[x.ai]) }
             [] p.x = "arg" ->
                  IF x.ai > Len(call.args) THEN { SetCtrl(c, Raise({"type"}, "")) }          \* invalid argument count
                  ELSE { Push(c, [f |-> "xarg", x |-> x, ty |-> p.ty, mask |-> FALSE], call.args[x.ai]) }
             [] p.x = "args" ->
                  IF call.args = << >> THEN { next(VList(<< >>), x.ai) }
                  ELSE { Push(c, [f |-> "xall", x |-> x, j |-> 1, acc |-> << >>], call.args[1]) }
             [] p.x = "ident" ->
                  IF x.ai > Len(call.args) THEN { SetCtrl(c, Raise({"type"}, "")) }
                  ELSE IF call.args[x.ai].k = "id" THEN { next(VStr(call.args[x.ai].ncp), x.ai + 1) }
                  ELSE { SetCtrl(c, Raise({"type"}, "")) }
             [] p.x = "expr" ->
                  IF x.ai > Len(call.args) THEN { SetCtrl(c, Raise({"type"}, "")) }
                  ELSE { next(VNull, x.ai + 1) }

RetStep(c, F) ==
  LET v == c.ctrl.v
      fr == Top(c)
      c0 == Pop(c)
  IN
  CASE fr.f = "cond" -> { MarkDev(SetCtrl(c0, Eval(IF Dev_Truthiness(v) THEN fr.a ELSE fr.b)), ~IsBool(v)) }
    [] fr.f = "and"  -> IF ~Dev_Truthiness(v) THEN { MarkDev(SetCtrl(c0, Ret(VBool(FALSE))), ~IsBool(v)) }    \* short circuit
                        ELSE { MarkDev(Push(c0, [f |-> "andR"], fr.r), ~IsBool(v)) }
    [] fr.f = "andR" -> { MarkDev(SetCtrl(c0, Ret(VBool(Dev_Truthiness(v)))), ~IsBool(v)) }
    [] fr.f = "or"   -> IF Dev_Truthiness(v) THEN { MarkDev(SetCtrl(c0, Ret(v)), ~IsBool(v)) }                   \* short circuit
                        ELSE { MarkDev(Push(c0, [f |-> "orR"], fr.r), ~IsBool(v)) }
    [] fr.f = "orR"  -> { MarkDev(SetCtrl(c0, Ret(v)), ~IsBool(v)) }
    [] fr.f = "binL" -> { Push(c0, [f |-> "binR", op |-> fr.op, l |-> v], fr.r) }
    [] fr.f = "binR" -> { Result(c0, ApplyBin(fr.op, fr.l, v)) }
    [] fr.f = "un"   -> { Result(c0, ApplyUn(fr.op, v)) }
    [] fr.f = "sel"  -> { ResultN(c0, IF fr.test THEN HasOp(v, fr.fcp) ELSE SelectOp(v, fr.fcp, fr.field \in DOMAIN F), fr.field) }
    [] fr.f = "list" -> LET acc == Append(fr.acc, v) IN
                        { IF fr.i = Len(fr.es) THEN SetCtrl(c0, Ret(VList(acc)))
                          ELSE Push(c0, [fr EXCEPT !.i = @ + 1, !.acc = acc], fr.es[fr.i + 1]) }
    [] fr.f = "mapK" -> { IF IsKeyKind(v) THEN Push(c0, [f |-> "mapV", es |-> fr.es, i |-> fr.i, key |-> v, acc |-> fr.acc], fr.es[fr.i][2])
                          ELSE SetCtrl(c0, Raise({"type"}, "")) }
    [] fr.f = "mapV" -> LET dup == FindKeyFrom(fr.acc, fr.key, 1, FALSE) # 0        \* repeated (or int/uint twin) key: not pinned
                            acc == MapInsert(fr.acc, fr.key, v)
                            c1 == MarkDev(c0, dup)
                        IN  { IF fr.i = Len(fr.es) THEN SetCtrl(c1, Ret(VMap(acc)))
                              ELSE Push(c1, [f |-> "mapK", es |-> fr.es, i |-> fr.i + 1, acc |-> acc], fr.es[fr.i + 1][1]) }
    [] fr.f = "recv" -> { SetCtrl(c0, Ext(fr.call, v, 1, 1, << >>)) }
    [] fr.f = "xarg" -> { IF Conv(v, fr.ty) THEN SetCtrl(c0, Ext(fr.x.call, fr.x.this, fr.x.si + 1, fr.x.ai + 1, Append(fr.x.got, v)))
                          ELSE ConvFail(c0, fr.x.call, fr.x.ai + 1) }
    [] fr.f = "xall" -> LET acc == Append(fr.acc, v)
                            n == Len(fr.x.call.args) IN
                        { IF fr.j = n THEN SetCtrl(c0, Ext(fr.x.call, fr.x.this, fr.x.si + 1, fr.x.ai, Append(fr.x.got, VList(acc))))
                          ELSE Push(c0, [fr EXCEPT !.j = @ + 1, !.acc = acc], fr.x.call.args[fr.j + 1]) }
    [] fr.f = "compInit" -> { Push(c0, [f |-> "compRange", c |-> fr.c, init |-> v], fr.c.range) }
    [] fr.f = "compRange" ->
         LET open(items) == LoopAt([c0 EXCEPT !.env = Append(@, << << fr.c.accu, fr.init >> >>)], fr.c, items, 1) IN
         (CASE v.t = "list" -> { open(v.e) }
           [] v.t = "map"  -> IF v.ord \/ Len(v.e) <= 1 THEN { open([i \in 1..Len(v.e) |-> v.e[i][1]]) }
                              ELSE { open([i \in 1..Len(v.e) |-> v.e[p[i]][1]]) : p \in Perms(Len(v.e)) }       \* CompChooseOrder
           [] OTHER -> { MarkDev(SetCtrl(c0, Raise({"type"}, "")), TRUE) })
    [] fr.f = "compCond" ->
         { IF Dev_Truthiness(v)
           THEN MarkDev(Push([c0 EXCEPT !.env = BindInner(@, fr.c.var, fr.items[fr.i])],
                             [f |-> "compStep", c |-> fr.c, items |-> fr.items, i |-> fr.i], fr.c.step), ~IsBool(v))
           ELSE MarkDev(Push(c0, [f |-> "compRes"], fr.c.res), ~IsBool(v)) }                                     \* CompBreak
    [] fr.f = "compStep" -> { LoopAt([c0 EXCEPT !.env = BindInner(@, fr.c.accu, v)], fr.c, fr.items, fr.i + 1) }
    [] fr.f = "compRes"  -> { [c0 EXCEPT !.env = SubSeq(@, 1, Len(@) - 1)] }                                     \* CompCloseScope

\* RaiseUnwind: the first error aborts the whole evaluation with its own class; scopes opened
\* by the evaluation are dropped.
UnwindStep(c) == { [c EXCEPT !.kont = << >>, !.env = << @[1] >>] }

StepSet(c, F) ==
  IF Final(c) THEN {}
  ELSE CASE c.ctrl.m = "eval"  -> EvalStep(c, F)
         [] c.ctrl.m = "ext"   -> ExtStep(c, F)
         [] c.ctrl.m = "ret"   -> RetStep(c, F)
         [] c.ctrl.m = "raise" -> UnwindStep(c)

\* all final configurations reachable from c
\* (advanced as one frontier, so that runs which differ only in an iteration order already consumed -- and
\* left no trace in the accumulator, the log or the deviation flag -- are followed once, not once per order)
RECURSIVE RunFrontier(_, _)
RunFrontier(S, F) ==
  IF \A c \in S : Final(c) THEN S
  ELSE RunFrontier(UNION { IF Final(c) THEN {c} ELSE StepSet(c, F) : c \in S }, F)
RunSet(c, F) == RunFrontier({c}, F)

\* deterministic fast path
RECURSIVE Run(_, _)
Run(c, F) == IF Final(c) THEN c ELSE Run(CHOOSE d \in StepSet(c, F) : TRUE, F)

Outcome(c) == IF c.ctrl.m = "ret" THEN [k |-> "v", v |-> c.ctrl.v, dev |-> c.dev]
              ELSE [k |-> "e", cs |-> c.ctrl.cs, name |-> c.ctrl.name, dev |-> c.dev]
=============================================================================
