----------------------------- MODULE CelEvalMC -----------------------------
(***************************************************************************)
(* Model-checking instance of the abstract machine.  Programs are grown    *)
(* inside the model, one prefix symbol at a time, from the alphabet        *)
(* Symbols, with at most MaxOps operator symbols and MaxSyms symbols; each *)
(* complete program is then run by the machine, one TLC transition per     *)
(* machine step, and compared with its declarative denotation (CelDen).    *)
(* "All programs with <= n operators over these leaves" is therefore a     *)
(* statement about the reachable states of this module.                    *)
(***************************************************************************)
EXTENDS Naturals, Integers, Sequences, FiniteSets, TLC, Json, CelValue
CONSTANTS Symbols, MaxOps, MaxSyms, EmitVectors,
          MaxList, ListAlphabet      \* the context list "vl": every sequence over ListAlphabet up to MaxList (0: fixed)
AST == INSTANCE CelAst
EV  == INSTANCE CelEval
DN  == INSTANCE CelDen
ZO  == INSTANCE CelZoo
LOCAL ZZ == INSTANCE BigInt

VARIABLES syms, need, nops, phase, cfg, den, src, vl
vars == << syms, need, nops, phase, cfg, den, src, vl >>

F == ZO!FullRegistry

\* the context every generated program runs against; "vl" is grown by BuildList when MaxList > 0
EnvOf(list) == << << << "vi", VIntN(7) >>,
                    << "x", VIntN(40) >>,                       \* shadowed inside macro bodies
                    << "vl", VList([i \in 1..Len(list) |-> VIntN(list[i])]) >>,
                    << "vm", [t |-> "map", e |-> << << VStr(<<97>>), VIntN(1) >>, << VStr(<<98>>), VIntN(0) >> >>, ord |-> TRUE] >> >> >>
DefaultList == << 1, 0, 2 >>
Env0 == EnvOf(DefaultList)

Idle == [ctrl |-> [m |-> "idle"], kont |-> << >>, env |-> << >>, log |-> << >>, dev |-> FALSE, looked |-> {}]
NoDen == [k |-> "none"]

Init == /\ syms = << >> /\ need = 1 /\ nops = 0
        /\ phase = (IF MaxList > 0 THEN "list" ELSE "build")
        /\ vl = (IF MaxList > 0 THEN << >> ELSE DefaultList)
        /\ cfg = Idle /\ den = NoDen /\ src = ""

\* BuildList: grow the context list; ListDone: freeze it and start building the program
BuildList(v) == /\ phase = "list" /\ Len(vl) < MaxList
                /\ vl' = Append(vl, v)
                /\ UNCHANGED << syms, need, nops, phase, cfg, den, src >>
ListDone == /\ phase = "list" /\ phase' = "build"
            /\ UNCHANGED << syms, need, nops, cfg, den, src, vl >>

\* BuildSymbol: append one symbol; when no hole is left the program is complete and loaded
BuildSymbol(s) ==
  /\ phase = "build"
  /\ Len(syms) < MaxSyms
  /\ nops + (IF AST!IsOp(s) THEN 1 ELSE 0) <= MaxOps
  /\ need - 1 + AST!Arity(s) <= MaxSyms - Len(syms) - 1      \* enough room left to close every hole
  /\ syms' = Append(syms, s)
  /\ need' = need - 1 + AST!Arity(s)
  /\ nops' = nops + (IF AST!IsOp(s) THEN 1 ELSE 0)
  /\ IF need' = 0
     THEN LET p == AST!ParsePrefix(syms') IN
          /\ phase' = "run"
          /\ cfg' = EV!InitCfg(AST!Expand(p.tree), EnvOf(vl)[1])
          /\ den' = DN!Den(p.tree, EnvOf(vl), F) @@ [names |-> AST!Names(p.tree)]
          /\ src' = p.src
     ELSE UNCHANGED << phase, cfg, den, src >>
  /\ UNCHANGED vl

\* MachineStep: one step of the abstract machine
MachineStep ==
  /\ phase = "run"
  /\ ~EV!Final(cfg)
  /\ cfg' \in EV!StepSet(cfg, F)
  /\ UNCHANGED << syms, need, nops, phase, den, src, vl >>

Finish ==
  /\ phase = "run" /\ EV!Final(cfg)
  /\ phase' = "done"
  /\ UNCHANGED << syms, need, nops, cfg, den, src, vl >>

Next == (\E v \in ListAlphabet : BuildList(v)) \/ ListDone \/ (\E s \in Symbols : BuildSymbol(s)) \/ MachineStep \/ Finish
Spec == Init /\ [][Next]_vars

-----------------------------------------------------------------------------
(* Invariants *)
IsPrefixSeq(a, b) == Len(a) <= Len(b) /\ \A i \in 1..Len(a) : a[i] = b[i]

\* NoStuck: a loaded program always has a next machine step until it is final
NoStuck == (phase = "run" /\ ~EV!Final(cfg)) => EV!StepSet(cfg, F) # {}
\* Deterministic: one successor (the models range only over lists and order-known maps)
Deterministic == (phase = "run" /\ ~EV!Final(cfg)) => Cardinality(EV!StepSet(cfg, F)) = 1
\* OnlyNeeded / SourceOrder / AtMostOnce: at every step the host calls made so far are a prefix of
\* the calls the denotation requires -- nothing skipped is ever evaluated, nothing is evaluated
\* twice or out of order
OnlyNeeded == phase \in {"run", "done"} => IsPrefixSeq(cfg.log, den.log)
\* ResultMatchesDen: value / error class and the complete log agree with the denotation
ResultMatchesDen ==
  phase = "done" =>
    /\ cfg.log = den.log
    /\ cfg.dev = den.dev
    /\ IF den.k = "v" THEN cfg.ctrl.m = "ret" /\ cfg.ctrl.v = den.v
       ELSE cfg.ctrl.m = "raise" /\ cfg.ctrl.cs = den.cs /\ cfg.ctrl.name = den.name
\* FirstErrorWins: once an error is raised no further host call happens and the class is kept
FirstErrorWins == [][(phase = "run" /\ cfg.ctrl.m = "raise") => (cfg'.log = cfg.log /\ cfg'.ctrl.m = "raise" /\ cfg'.ctrl.cs = cfg.ctrl.cs)]_vars
\* ScopeDiscipline: only the innermost scope is ever written, pushed or dropped; the root never changes
ScopeDiscipline ==
  [][phase = "run" =>
       /\ cfg'.env[1] = cfg.env[1]
       /\ \A i \in 1..(Len(cfg.env) - 1) : i <= Len(cfg'.env) - 1 => cfg'.env[i] = cfg.env[i]]_vars
ScopesClosed == phase = "done" => cfg.env = EnvOf(vl)
\* Terminates: the stack depth is bounded by the size of the program
Bounded == phase = "run" => Len(cfg.kont) <= 4 * MaxSyms + 4

\* LookedUpSubsetRefs (C19): every name handed to variable lookup or function dispatch occurs in the
\* source (macro accumulators aside), and an undeclared outcome names something that was looked up
LookedUpSubsetRefs ==
  phase \in {"run", "done"} =>
    LET names == den.names IN
    /\ \A lk \in cfg.looked : lk[2] = "@result" \/ lk \in names
    /\ (cfg.ctrl.m = "raise" /\ "undeclared" \in cfg.ctrl.cs) =>
          (<< "var", cfg.ctrl.name >> \in cfg.looked \/ << "fn", cfg.ctrl.name >> \in cfg.looked)

\* one vector per complete program, printed when it is loaded
Emit == (EmitVectors /\ phase = "run" /\ cfg.log = << >> /\ cfg.kont = << >> /\ cfg.ctrl.m = "eval")
          => PrintT(<< "VEC", ToJson([src |-> src, vl |-> vl, syms |-> syms]) >>)

\* keep history-only variables out of the fingerprint
View == << syms, need, phase, cfg, vl >>
=============================================================================
