SPECIFICATION Spec
CONSTANTS
  Symbols = {"add", "lt", "idx", "in", "and", "not", "neg", "cond", "size", "has_a", "all", "T", "i1", "u1", "sa", "null", "l12", "vm", "imin"}
  MaxOps = 2
  MaxSyms = 5
  EmitVectors = TRUE
  MaxList = 0
  ListAlphabet = {}
INVARIANTS NoStuck Deterministic OnlyNeeded ResultMatchesDen ScopesClosed Bounded Emit
PROPERTIES FirstErrorWins ScopeDiscipline
VIEW View
CHECK_DEADLOCK FALSE
