SPECIFICATION Spec
CONSTANTS
  Symbols = {"add", "sub", "mul", "div", "rem", "neg", "lt", "eq", "imax", "imin", "i0", "im1", "i2", "u1"}
  MaxOps = 2
  MaxSyms = 5
  EmitVectors = TRUE
  MaxList = 0
  ListAlphabet = {}
INVARIANTS NoStuck Deterministic OnlyNeeded ResultMatchesDen ScopesClosed Bounded Emit
PROPERTIES FirstErrorWins ScopeDiscipline
VIEW View
CHECK_DEADLOCK FALSE
