SPECIFICATION Spec
CONSTANTS
  Symbols = {"cond", "idx", "in", "eq", "size", "has_a", "vl", "vm", "sa", "i1", "T"}
  MaxOps = 2
  MaxSyms = 6
  EmitVectors = TRUE
  MaxList = 0
  ListAlphabet = {}
INVARIANTS NoStuck Deterministic OnlyNeeded ResultMatchesDen ScopesClosed Bounded Emit
PROPERTIES FirstErrorWins ScopeDiscipline
VIEW View
CHECK_DEADLOCK FALSE
