SPECIFICATION Spec
CONSTANTS
  Symbols = {"and", "or", "cond", "T", "F", "tb", "fail", "div0", "nofn"}
  MaxOps = 2
  MaxSyms = 7
  EmitVectors = TRUE
  MaxList = 0
  ListAlphabet = {}
INVARIANTS NoStuck Deterministic OnlyNeeded ResultMatchesDen ScopesClosed Bounded Emit
PROPERTIES FirstErrorWins ScopeDiscipline
VIEW View
CHECK_DEADLOCK FALSE
