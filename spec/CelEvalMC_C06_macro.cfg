SPECIFICATION Spec
CONSTANTS
  Symbols = {"all", "exists", "and", "or", "gt", "l12", "x", "i1", "tb", "ovf"}
  MaxOps = 3
  MaxSyms = 7
  EmitVectors = TRUE
  MaxList = 0
  ListAlphabet = {}
INVARIANTS NoStuck Deterministic OnlyNeeded ResultMatchesDen ScopesClosed Bounded Emit
PROPERTIES FirstErrorWins ScopeDiscipline
VIEW View
CHECK_DEADLOCK FALSE
