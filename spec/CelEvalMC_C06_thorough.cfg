SPECIFICATION Spec
CONSTANTS
  Symbols = {"and", "or", "cond", "T", "tb", "fail", "nokey"}
  MaxOps = 3
  MaxSyms = 10
  EmitVectors = TRUE
  MaxList = 0
  ListAlphabet = {}
INVARIANTS NoStuck Deterministic OnlyNeeded ResultMatchesDen ScopesClosed Bounded Emit
PROPERTIES FirstErrorWins ScopeDiscipline
VIEW View
CHECK_DEADLOCK FALSE
