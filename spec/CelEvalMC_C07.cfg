SPECIFICATION Spec
CONSTANTS
  Symbols = {"t", "h2", "m1", "add", "list2", "map1", "i1", "i2"}
  MaxOps = 3
  MaxSyms = 7
  EmitVectors = TRUE
  MaxList = 0
  ListAlphabet = {}
INVARIANTS NoStuck Deterministic OnlyNeeded ResultMatchesDen ScopesClosed Bounded Emit
PROPERTIES FirstErrorWins ScopeDiscipline
VIEW View
CHECK_DEADLOCK FALSE
