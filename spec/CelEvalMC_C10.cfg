SPECIFICATION Spec
CONSTANTS
  Symbols = {"all", "exists", "exists_one", "mapm", "filter", "mapf", "gt", "div", "t", "vl", "x", "i1"}
  MaxOps = 2
  MaxSyms = 6
  EmitVectors = TRUE
  MaxList = 2
  ListAlphabet = {0, 1}
INVARIANTS NoStuck Deterministic OnlyNeeded ResultMatchesDen ScopesClosed Bounded Emit
PROPERTIES FirstErrorWins ScopeDiscipline
VIEW View
CHECK_DEADLOCK FALSE
