SPECIFICATION Spec
CONSTANTS
  Symbols = {"mapm", "filter", "all", "mapf", "filter_vl", "map_vl", "tx", "txp", "dx", "dxp"}
  MaxOps = 3
  MaxSyms = 5
  EmitVectors = TRUE
  MaxList = 2
  ListAlphabet = {0, 1}
INVARIANTS NoStuck Deterministic OnlyNeeded ResultMatchesDen ScopesClosed Bounded Emit
PROPERTIES FirstErrorWins ScopeDiscipline
VIEW View
CHECK_DEADLOCK FALSE
