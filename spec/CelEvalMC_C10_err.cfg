SPECIFICATION Spec
CONSTANTS
  Symbols = {"all_vl", "exists_vl", "exone_vl", "dxp", "txp", "and", "or"}
  MaxOps = 3
  MaxSyms = 4
  EmitVectors = TRUE
  MaxList = 3
  ListAlphabet = {0, 1, 2}
INVARIANTS NoStuck Deterministic OnlyNeeded ResultMatchesDen ScopesClosed Bounded Emit
PROPERTIES FirstErrorWins ScopeDiscipline
VIEW View
CHECK_DEADLOCK FALSE
