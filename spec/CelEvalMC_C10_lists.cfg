SPECIFICATION Spec
CONSTANTS
  Symbols = {"all_vl", "exists_vl", "exone_vl", "filter_vl", "map_vl", "gt", "div", "x", "i0", "i1"}
  MaxOps = 2
  MaxSyms = 4
  EmitVectors = TRUE
  MaxList = 5
  ListAlphabet = {0, 1, 2}
INVARIANTS NoStuck Deterministic OnlyNeeded ResultMatchesDen ScopesClosed Bounded Emit
PROPERTIES FirstErrorWins ScopeDiscipline
VIEW View
CHECK_DEADLOCK FALSE
