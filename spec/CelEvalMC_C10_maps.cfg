SPECIFICATION Spec
CONSTANTS
  Symbols = {"all", "exists", "exists_one", "mapm", "filter", "mapf", "eq", "vm", "x", "T", "F", "sa"}
  MaxOps = 2
  MaxSyms = 6
  EmitVectors = TRUE
  MaxList = 0
  ListAlphabet = {}
INVARIANTS NoStuck Deterministic OnlyNeeded ResultMatchesDen ScopesClosed Bounded Emit
PROPERTIES FirstErrorWins ScopeDiscipline
VIEW View
CHECK_DEADLOCK FALSE
