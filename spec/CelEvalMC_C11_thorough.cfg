SPECIFICATION Spec
CONSTANTS
  Symbols = {"mapm", "mapy", "existsy", "add", "ll", "x", "y"}
  MaxOps = 3
  MaxSyms = 7
  EmitVectors = TRUE
  MaxList = 0
  ListAlphabet = {}
INVARIANTS NoStuck Deterministic OnlyNeeded ResultMatchesDen ScopesClosed Bounded Emit
PROPERTIES FirstErrorWins ScopeDiscipline
VIEW View
CHECK_DEADLOCK FALSE
