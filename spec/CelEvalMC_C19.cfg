SPECIFICATION Spec
CONSTANTS
  Symbols = {"add", "idx", "cond", "and", "h1", "m1", "list2", "map1", "has_a", "all", "mapy", "undecl", "vi", "vl", "x", "y", "i1"}
  MaxOps = 2
  MaxSyms = 5
  EmitVectors = TRUE
  MaxList = 0
  ListAlphabet = {}
INVARIANTS NoStuck OnlyNeeded ResultMatchesDen ScopesClosed LookedUpSubsetRefs Emit
VIEW View
CHECK_DEADLOCK FALSE
