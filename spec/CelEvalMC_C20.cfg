SPECIFICATION Spec
CONSTANTS
  Symbols = {"h1", "h2", "h3", "m0", "m1", "m2", "size", "int", "t", "i1", "sa", "null", "l12", "div0"}
  MaxOps = 2
  MaxSyms = 6
  EmitVectors = TRUE
  MaxList = 0
  ListAlphabet = {}
INVARIANTS NoStuck Deterministic OnlyNeeded ResultMatchesDen ScopesClosed Bounded Emit
PROPERTIES FirstErrorWins ScopeDiscipline
VIEW View
CHECK_DEADLOCK FALSE
