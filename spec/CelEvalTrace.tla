---------------------------- MODULE CelEvalTrace ----------------------------
(***************************************************************************)
(* Trace specification for the "eval" family.  The harness records, per    *)
(* case, the public AST the parser produced, the context variables, the    *)
(* ordered host-call log and the outcome of Program::execute.  A case is   *)
(* accepted iff some run of the abstract machine (CelEval!RunSet: the      *)
(* machine's own step relation; it branches only over the iteration order  *)
(* of maps built during evaluation) ends with the same log and outcome.    *)
(* Rejected cases are collected in `bad`; the post-condition reports them. *)
(***************************************************************************)
EXTENDS Naturals, Integers, Sequences, FiniteSets, TLC, TLCExt, Json, IOUtils, CelEval
LOCAL ZO == INSTANCE CelZoo
LOCAL AST == INSTANCE CelAst
LOCAL GR == INSTANCE CelGrammar

Rec == ndJsonDeserialize(IOEnv.TRACE)

VARIABLES l, bad, ndev
vars == << l, bad, ndev >>

F == ZO!FullRegistry

\* scope from the recorded [[name, VALUE], ...]
RootScope(vs) == [i \in 1..Len(vs) |-> << vs[i][1], vs[i][2] >>]

LogMatches(specLog, obsLog) ==
  /\ Len(specLog) = Len(obsLog)
  /\ \A i \in 1..Len(specLog) :
        /\ specLog[i].f = obsLog[i].f
        /\ Len(specLog[i].a) = Len(obsLog[i].a)
        /\ \A j \in 1..Len(specLog[i].a) : Same(specLog[i].a[j], obsLog[i].a[j])

OutMatches(fin, out) ==
  IF fin.ctrl.m = "ret" THEN out.k = "v" /\ Same(fin.ctrl.v, out.v)
  ELSE /\ out.k = "e" /\ out.c \in fin.ctrl.cs
       /\ ("undeclared" \in fin.ctrl.cs /\ out.c = "undeclared") => out.name = fin.ctrl.name
       \* the payload of the error: the missing key, the function that failed
       /\ (out.c \in {"nokey", "fnerr"} /\ fin.ctrl.name # "") => out.name = fin.ctrl.name

\* a case is explained by a final configuration
Explains(fin, r) ==
  /\ r.out.k \in {"v", "e"}                       \* a panic or a time-out is never a behaviour
  /\ \/ fin.dev                                   \* outside what the properties pin down: value or error suffices
     \/ ((("nolog" \in DOMAIN r) \/ LogMatches(fin.log, r.log)) /\ OutMatches(fin, r.out))

\* Cases replayed from model-generated vectors carry the prefix symbols the model built: the
\* intended tree is then the specification's own (macro-expanded) tree, not the one the
\* implementation's parser returned, so the whole path source text -> behaviour is judged.
ModelEnv(list) == << << "vi", VIntN(7) >>, << "x", VIntN(40) >>,
                    << "vl", VList([i \in 1..Len(list) |-> VIntN(list[i])]) >>,
                    << "vm", [t |-> "map", e |-> << << VStr(<<97>>), VIntN(1) >>, << VStr(<<98>>), VIntN(0) >> >>, ord |-> FALSE] >> >>      \* the instance's iteration order is not known here
\* a host function registered under an existing name replaces it
FOf(r) == IF "registry" \in DOMAIN r /\ r.registry = "empty" THEN [n \in {} |-> 0]           \* Context::empty()
          ELSE IF "overrides" \in DOMAIN r /\ r.overrides # << >>
          THEN [n \in DOMAIN F \cup {r.overrides[i] : i \in 1..Len(r.overrides)} |->
                  IF \E i \in 1..Len(r.overrides) : r.overrides[i] = n THEN ZO!H(<< ZO!A >>, "pack") ELSE F[n]]
          ELSE F
Finals(r) == IF "syms" \in DOMAIN r
             THEN RunSet(InitCfg(AST!Expand(AST!ParsePrefix(r.syms).tree), ModelEnv(r.vl)), F)
             ELSE RunSet(InitCfg(r.ast, RootScope(r.vars)), FOf(r))

\* x.f(args) and f(x, args), recorded side by side, must have the same outcome
SameOutcome(o1, o2) == \/ (o1.k = "v" /\ o2.k = "v" /\ Same(o1.v, o2.v))
                       \/ (o1.k = "e" /\ o2.k = "e" /\ o1.c = o2.c)
\* C05: executing never changes the context it ran against, nor any value obtained earlier from it
\* or from earlier executions (each entry of `held` pairs a value's first encoding with its current one)
PureOK(r) ==
  /\ ("vars_after" \in DOMAIN r) =>
        LET before == IF "vars_before" \in DOMAIN r THEN r.vars_before ELSE r.vars IN      \* vars_before: the context itself, when the execution ran in an inner scope that shadows part of it
        /\ Len(r.vars_after) = Len(before)
        /\ \A i \in 1..Len(before) : r.vars_after[i][1] = before[i][1] /\ Same(before[i][2], r.vars_after[i][2])
  /\ ("held" \in DOMAIN r) => \A i \in 1..Len(r.held) : Same(r.held[i][1], r.held[i][2])
\* End to end: the tree that was evaluated (exported by the implementation's parser) is the tree the
\* grammar transcription assigns to the source text, so a parser change cannot hide behind a faithful evaluator.
ParseAgrees(r) ==
  ("text" \in DOMAIN r /\ "ast" \in DOMAIN r) =>
     LET p == GR!Parse(r.text) IN
     p.sentence /\ ((~p.u /\ ~GR!IsBad(p.t)) => GR!TreeSame(p.t, r.ast))
\* (the twin of a concurrent execution is the SAME program run alone: where the program ranges over a map it builds
\*  itself, the two runs may legitimately take different iteration orders, so the twin only has to be a pinned behaviour
\*  of the specification as well -- C05: "up to the unspecified iteration order of maps")
TwinOK(r, fs) ==
  "twin" \in DOMAIN r =>
     \/ (SameOutcome(r.out, r.twin.out) /\ Len(r.log) = Len(r.twin.log))
     \/ (r.twin.src = "alone" /\ \E fin \in fs : ~fin.dev /\ Explains(fin, [r EXCEPT !.out = r.twin.out, !.log = r.twin.log])
                               /\ \E fin2 \in fs : ~fin2.dev /\ Explains(fin2, r))

Init == l = 1 /\ bad = << >> /\ ndev = 0
Next == /\ l <= Len(Rec)
        /\ l' = l + 1
        /\ LET r == Rec[l]
               fs == Finals(r)
           IN
           /\ bad' = IF (\E fin \in fs : Explains(fin, r)) /\ TwinOK(r, fs) /\ PureOK(r) /\ ParseAgrees(r) THEN bad ELSE Append(bad, r.id)
           /\ ndev' = IF r.out.k \in {"v", "e"} /\ \A fin \in fs : fin.dev THEN ndev + 1 ELSE ndev
Spec == Init /\ [][Next]_vars

Done == l = Len(Rec) + 1
\* printed once, at the end
Report == Done => PrintT(<< "RESULT", ToJson([cases |-> Len(Rec), bad |-> bad, dev |-> ndev]) >>)
=============================================================================
