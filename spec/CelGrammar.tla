------------------------------ MODULE CelGrammar ------------------------------
(***************************************************************************)
(* The parser rules of CEL.g4 (lines 20-109) as a recursive-descent        *)
(* recogniser / parser over the token sequence of CelLex.  Every parse     *)
(* function takes the position of the next token and returns               *)
(*   [ok |-> TRUE, t |-> tree, nx |-> next position, u |-> uses-unsupported-syntax] *)
(*   or [ok |-> FALSE].                                                    *)
(* Trees are the core AST records of CelEval with macros already expanded  *)
(* (the parser expands them while it builds calls).                        *)
(*   Sentence(cp) : the text is one complete CEL expression                *)
(*   Tree(cp)     : its tree ([ok |-> FALSE] if it is no sentence, uses    *)
(*                  unsupported optional syntax, or a literal / macro is   *)
(*                  ill-formed)                                            *)
(***************************************************************************)
EXTENDS Naturals, Integers, Sequences, FiniteSets, CelValue
LOCAL LX == INSTANCE CelLex
LOCAL AST == INSTANCE CelAst
LOCAL NL == INSTANCE CelNumLit
LOCAL LT == INSTANCE CelLiteral
LOCAL ZZ == INSTANCE BigInt
LOCAL NM == INSTANCE Num64

Fail == [ok |-> FALSE]
Ok(t, nx, u) == [ok |-> TRUE, t |-> t, nx |-> nx, u |-> u]
\* an ill-formed literal / macro inside an otherwise grammatical text: still a sentence, but no tree
BadTree == [k |-> "bad"]
IsBad(t) == t.k = "bad"

K(toks, i) == IF i <= Len(toks) THEN toks[i].k ELSE "eof"
Text(cp, tok) == SubSeq(cp, tok.i, tok.i + tok.n - 1)
\* identifier text as a TLA+ string is not available (code points only); names are kept as code points
\* and converted with NameOf for the few places where the evaluator needs strings (operators are fixed).
RelOps == [o \in {"<", "<=", ">=", ">", "==", "!=", "in"} |->
            CASE o = "<" -> "_<_" [] o = "<=" -> "_<=_" [] o = ">=" -> "_>=_" [] o = ">" -> "_>_" [] o = "==" -> "_==_" [] o = "!=" -> "_!=_" [] o = "in" -> "@in"]
AddOps == [o \in {"+", "-"} |-> IF o = "+" THEN "_+_" ELSE "_-_"]
MulOps == [o \in {"*", "/", "%"} |-> CASE o = "*" -> "_*_" [] o = "/" -> "_/_" [] o = "%" -> "_%_"]

\* names: identifiers are returned as code-point sequences in field `ncp`; `name` holds a canonical
\* string only for the names the evaluator treats specially (macros), via this table
MacroNames == { << <<104, 97, 115>>, "has" >>, << <<97, 108, 108>>, "all" >>, << <<101, 120, 105, 115, 116, 115>>, "exists" >>,
                << <<101, 120, 105, 115, 116, 115, 95, 111, 110, 101>>, "exists_one" >>, << <<101, 120, 105, 115, 116, 115, 79, 110, 101>>, "exists_one" >>,
                << <<109, 97, 112>>, "map" >>, << <<102, 105, 108, 116, 101, 114>>, "filter" >> }
MacroOf(ncp) == IF \E p \in MacroNames : p[1] = ncp THEN (CHOOSE p \in MacroNames : p[1] = ncp)[2] ELSE ""

IdT(ncp) == [k |-> "id", ncp |-> ncp]
CallT(fn, fcp, tgt, args) == [k |-> "call", fn |-> fn, fcp |-> fcp, tgt |-> tgt, args |-> args]
OpT(fn, args) == CallT(fn, << >>, AST!None, args)
AnyBad(ts) == \E i \in 1..Len(ts) : IsBad(ts[i])

AccuT == IdT(<< 64, 114, 101, 115, 117, 108, 116 >>)                 \* @result
BoolT(b) == [k |-> "lit", v |-> VBool(b)]
IntT(n) == [k |-> "lit", v |-> VIntN(n)]
ListT(es) == [k |-> "list", e |-> es]
CompT(range, var, init, cond, step, res) ==
  [k |-> "comp", range |-> range, varcp |-> var, init |-> init, cond |-> cond, step |-> step, res |-> res]
\* the expansions of antlr/src/macros.rs
ExpandG(m, range, var, args) ==
  CASE m = "all" -> CompT(range, var, BoolT(TRUE), OpT("@not_strictly_false", << AccuT >>), OpT("_&&_", << AccuT, args[1] >>), AccuT)
    [] m = "exists" -> CompT(range, var, BoolT(FALSE), OpT("@not_strictly_false", << OpT("!_", << AccuT >>) >>), OpT("_||_", << AccuT, args[1] >>), AccuT)
    [] m = "exists_one" -> CompT(range, var, IntT(0), BoolT(TRUE),
                                 OpT("_?_:_", << args[1], OpT("_+_", << AccuT, IntT(1) >>), AccuT >>), OpT("_==_", << AccuT, IntT(1) >>))
    [] m = "map" /\ Len(args) = 1 -> CompT(range, var, ListT(<< >>), BoolT(TRUE), OpT("_+_", << AccuT, ListT(<< args[1] >>) >>), AccuT)
    [] m = "map" /\ Len(args) = 2 -> CompT(range, var, ListT(<< >>), BoolT(TRUE),
                                          OpT("_?_:_", << args[1], OpT("_+_", << AccuT, ListT(<< args[2] >>) >>), AccuT >>), AccuT)
    [] m = "filter" -> CompT(range, var, ListT(<< >>), BoolT(TRUE),
                             OpT("_?_:_", << args[1], OpT("_+_", << AccuT, ListT(<< IdT(var) >>) >>), AccuT >>), AccuT)

\* a call written by the user: macro expansion as macros.rs does it (by name, arity and presence of a receiver)
MkCall(ncp, tgt, args) ==
  LET m == MacroOf(ncp) IN
  IF AnyBad(args) \/ (tgt.k # "none" /\ IsBad(tgt)) THEN BadTree
  ELSE IF m = "has" /\ tgt.k = "none" /\ Len(args) = 1 THEN
        (IF args[1].k = "sel" /\ ~args[1].test THEN [args[1] EXCEPT !.test = TRUE] ELSE BadTree)
  ELSE IF m \in {"all", "exists", "exists_one", "filter"} /\ tgt.k # "none" /\ Len(args) = 2 THEN
        (IF args[1].k = "id" THEN ExpandG(m, tgt, args[1].ncp, << args[2] >>) ELSE BadTree)
  ELSE IF m = "map" /\ tgt.k # "none" /\ Len(args) \in {2, 3} THEN
        (IF args[1].k = "id" THEN ExpandG("map", tgt, args[1].ncp, Tail(args)) ELSE BadTree)
  ELSE CallT("", ncp, tgt, args)

\* numeric / string literal tokens -> literal trees (BadTree when out of range or ill-formed)
LitTree(cp, tok, neg) ==
  LET txt == (IF neg THEN << 45 >> ELSE << >>) \o Text(cp, tok) IN
  CASE tok.k \in {"int", "uint", "dbl"} ->
         LET x == NL!LitExpected(txt) IN
         IF x.k = "v" /\ ~x.dev THEN [k |-> "lit", v |-> x.v] ELSE BadTree
    [] tok.k \in {"str", "bytes"} ->
         LET d == LT!Decode(Text(cp, tok)) IN
         IF d.ok /\ ~d.dev THEN [k |-> "lit", v |-> IF d.bytes THEN VBytes(d.val) ELSE VStr(d.val)] ELSE BadTree
    [] tok.k = "true" -> [k |-> "lit", v |-> VBool(TRUE)]
    [] tok.k = "false" -> [k |-> "lit", v |-> VBool(FALSE)]
    [] tok.k = "null" -> [k |-> "lit", v |-> VNull]

RECURSIVE Expr(_, _, _), CondOr(_, _, _), CondAnd(_, _, _), RelLevel(_, _, _), AddLevel(_, _, _), MulLevel(_, _, _), Unary(_, _, _),
          Member(_, _, _), Postfix(_, _, _, _, _), Primary(_, _, _), ExprList(_, _, _, _, _, _), MapEntries(_, _, _, _, _), FieldInits(_, _, _, _, _),
          Chain(_, _, _, _, _, _, _), BinChain(_, _, _, _, _, _, _)

\* n-ary chain  sub (op sub)*  for && and ||
Chain(cp, toks, i, op, fn, acc, u) ==
  IF K(toks, i) = op THEN
       LET r == IF op = "||" THEN CondAnd(cp, toks, i + 1) ELSE RelLevel(cp, toks, i + 1) IN
       IF ~r.ok THEN Fail ELSE Chain(cp, toks, r.nx, op, fn, Append(acc, r.t), u \/ r.u)
  ELSE Ok(IF Len(acc) = 1 THEN acc[1] ELSE IF AnyBad(acc) THEN BadTree ELSE OpT(fn, acc), i, u)
\* left-associative binary chain at one precedence level
BinChain(cp, toks, i, level, left, u, dummy) ==
  LET ops == CASE level = "rel" -> RelOps [] level = "add" -> AddOps [] level = "mul" -> MulOps
      k == K(toks, i)
  IN  IF k \in DOMAIN ops THEN
           LET r == CASE level = "rel" -> AddLevel(cp, toks, i + 1) [] level = "add" -> MulLevel(cp, toks, i + 1) [] level = "mul" -> Unary(cp, toks, i + 1) IN
           IF ~r.ok THEN Fail
           ELSE BinChain(cp, toks, r.nx, level, IF IsBad(left) \/ IsBad(r.t) THEN BadTree ELSE OpT(ops[k], << left, r.t >>), u \/ r.u, dummy)
      ELSE Ok(left, i, u)

Expr(cp, toks, i) ==
  LET c == CondOr(cp, toks, i) IN
  IF ~c.ok THEN Fail
  ELSE IF K(toks, c.nx) = "?" THEN
       LET a == CondOr(cp, toks, c.nx + 1) IN
       IF ~a.ok \/ K(toks, a.nx) # ":" THEN Fail
       ELSE LET b == Expr(cp, toks, a.nx + 1) IN
            IF ~b.ok THEN Fail
            ELSE Ok(IF AnyBad(<< c.t, a.t, b.t >>) THEN BadTree ELSE OpT("_?_:_", << c.t, a.t, b.t >>), b.nx, c.u \/ a.u \/ b.u)
  ELSE c
CondOr(cp, toks, i) == LET r == CondAnd(cp, toks, i) IN IF ~r.ok THEN Fail ELSE Chain(cp, toks, r.nx, "||", "_||_", << r.t >>, r.u)
CondAnd(cp, toks, i) == LET r == RelLevel(cp, toks, i) IN IF ~r.ok THEN Fail ELSE Chain(cp, toks, r.nx, "&&", "_&&_", << r.t >>, r.u)
RelLevel(cp, toks, i) == LET r == AddLevel(cp, toks, i) IN IF ~r.ok THEN Fail ELSE BinChain(cp, toks, r.nx, "rel", r.t, r.u, 0)
AddLevel(cp, toks, i) == LET r == MulLevel(cp, toks, i) IN IF ~r.ok THEN Fail ELSE BinChain(cp, toks, r.nx, "add", r.t, r.u, 0)
MulLevel(cp, toks, i) == LET r == Unary(cp, toks, i) IN IF ~r.ok THEN Fail ELSE BinChain(cp, toks, r.nx, "mul", r.t, r.u, 0)

RECURSIVE RunLen(_, _, _)
RunLen(toks, i, k) == IF K(toks, i) = k THEN 1 + RunLen(toks, i + 1, k) ELSE 0

\* prefix operators: a run of ! or a run of - (not mixed); an even run cancels, an odd one applies once.
\* A single - directly before a numeric literal is the literal's sign.
Unary(cp, toks, i) ==
  LET k == K(toks, i) IN
  IF k = "!" THEN
       LET n == RunLen(toks, i, "!")
           m == Member(cp, toks, i + n) IN
       IF ~m.ok THEN Fail ELSE Ok(IF n % 2 = 0 \/ IsBad(m.t) THEN m.t ELSE OpT("!_", << m.t >>), m.nx, m.u)
  ELSE IF k = "-" THEN
       LET n == RunLen(toks, i, "-") IN
       IF n = 1 /\ K(toks, i + 1) \in {"int", "dbl"} THEN Member(cp, toks, i)       \* signed literal (handled in Primary)
       ELSE LET m == Member(cp, toks, i + n) IN
            IF ~m.ok THEN Fail ELSE Ok(IF n % 2 = 0 \/ IsBad(m.t) THEN m.t ELSE OpT("-_", << m.t >>), m.nx, m.u)
  ELSE Member(cp, toks, i)

Member(cp, toks, i) == LET p == Primary(cp, toks, i) IN IF ~p.ok THEN Fail ELSE Postfix(cp, toks, p.nx, p.t, p.u)

\* member: select, member call, index -- applied left to right
Postfix(cp, toks, i, t, u) ==
  IF K(toks, i) = "." THEN
       LET opt == K(toks, i + 1) = "?"
           j == IF opt THEN i + 2 ELSE i + 1 IN
       IF K(toks, j) \notin {"id", "escid"} THEN Fail
       ELSE IF K(toks, j) = "id" /\ K(toks, j + 1) = "(" /\ ~opt THEN
            LET a == ExprList(cp, toks, j + 2, ")", << >>, FALSE) IN
            IF ~a.ok THEN Fail ELSE Postfix(cp, toks, a.nx, MkCall(Text(cp, toks[j]), t, a.t), u \/ a.u)
       ELSE Postfix(cp, toks, j + 1, IF IsBad(t) THEN BadTree ELSE [k |-> "sel", e |-> t, fcp |-> Text(cp, toks[j]), test |-> FALSE], u \/ opt \/ K(toks, j) = "escid")
  ELSE IF K(toks, i) = "[" THEN
       LET opt == K(toks, i + 1) = "?"
           e == Expr(cp, toks, IF opt THEN i + 2 ELSE i + 1) IN
       IF ~e.ok \/ K(toks, e.nx) # "]" THEN Fail
       ELSE Postfix(cp, toks, e.nx + 1, IF IsBad(t) \/ IsBad(e.t) THEN BadTree ELSE OpT("_[_]", << t, e.t >>), u \/ e.u \/ opt)
  ELSE Ok(t, i, u)

\* expr (',' expr)* up to the closing token `close`; allowTrail: a trailing comma / optional '?' elements (lists)
ExprList(cp, toks, i, close, acc, allowTrail) ==
  IF K(toks, i) = close THEN Ok(acc, i + 1, FALSE)
  ELSE IF allowTrail /\ acc = << >> /\ K(toks, i) = "," /\ K(toks, i + 1) = close THEN Ok(acc, i + 2, FALSE)      \* '[' ','? ']' with no elements
  ELSE LET opt == allowTrail /\ K(toks, i) = "?"
           e == Expr(cp, toks, IF opt THEN i + 1 ELSE i) IN
       IF ~e.ok THEN Fail
       ELSE IF K(toks, e.nx) = "," THEN
              (IF K(toks, e.nx + 1) = close THEN (IF allowTrail THEN Ok(Append(acc, e.t), e.nx + 2, e.u \/ opt) ELSE Fail)
               ELSE LET r == ExprList(cp, toks, e.nx + 1, close, Append(acc, e.t), allowTrail) IN
                    IF ~r.ok THEN Fail ELSE Ok(r.t, r.nx, r.u \/ e.u \/ opt))
       ELSE IF K(toks, e.nx) = close THEN Ok(Append(acc, e.t), e.nx + 1, e.u \/ opt)
       ELSE Fail

\* optExpr ':' expr (',' ...)* ','? '}'
MapEntries(cp, toks, i, acc, u) ==
  IF K(toks, i) = "}" THEN Ok(acc, i + 1, u)
  ELSE IF acc = << >> /\ K(toks, i) = "," /\ K(toks, i + 1) = "}" THEN Ok(acc, i + 2, u)
  ELSE LET opt == K(toks, i) = "?"
           k == Expr(cp, toks, IF opt THEN i + 1 ELSE i) IN
       IF ~k.ok \/ K(toks, k.nx) # ":" THEN Fail
       ELSE LET v == Expr(cp, toks, k.nx + 1) IN
            IF ~v.ok THEN Fail
            ELSE LET acc2 == Append(acc, << k.t, v.t >>)
                     u2 == u \/ k.u \/ v.u \/ opt IN
                 IF K(toks, v.nx) = "," THEN
                      (IF K(toks, v.nx + 1) = "}" THEN Ok(acc2, v.nx + 2, u2) ELSE MapEntries(cp, toks, v.nx + 1, acc2, u2))
                 ELSE IF K(toks, v.nx) = "}" THEN Ok(acc2, v.nx + 1, u2)
                 ELSE Fail
\* optField ':' expr (',' ...)* ','? '}'
FieldInits(cp, toks, i, acc, u) ==
  IF K(toks, i) = "}" THEN Ok(acc, i + 1, u)
  ELSE IF acc = << >> /\ K(toks, i) = "," /\ K(toks, i + 1) = "}" THEN Ok(acc, i + 2, u)
  ELSE LET opt == K(toks, i) = "?"
           j == IF opt THEN i + 1 ELSE i IN
       IF K(toks, j) \notin {"id", "escid"} \/ K(toks, j + 1) # ":" THEN Fail
       ELSE LET v == Expr(cp, toks, j + 2) IN
            IF ~v.ok THEN Fail
            ELSE LET acc2 == Append(acc, << Text(cp, toks[j]), v.t >>)
                     u2 == u \/ v.u \/ opt IN
                 IF K(toks, v.nx) = "," THEN
                      (IF K(toks, v.nx + 1) = "}" THEN Ok(acc2, v.nx + 2, u2) ELSE FieldInits(cp, toks, v.nx + 1, acc2, u2))
                 ELSE IF K(toks, v.nx) = "}" THEN Ok(acc2, v.nx + 1, u2)
                 ELSE Fail

\* position after  id ('.' id)*  starting at an id token
RECURSIVE DottedEnd(_, _)
DottedEnd(toks, i) == IF K(toks, i + 1) = "." /\ K(toks, i + 2) = "id" THEN DottedEnd(toks, i + 2) ELSE i + 1

Primary(cp, toks, i) ==
  LET k == K(toks, i)
      dot == k = "."
      j == IF dot THEN i + 1 ELSE i
  IN
  IF K(toks, j) = "id" /\ (dot \/ k = "id") THEN
       IF K(toks, DottedEnd(toks, j)) = "{" THEN                                     \* message literal  T{...} / a.b.T{...}
            LET f == FieldInits(cp, toks, DottedEnd(toks, j) + 1, << >>, FALSE) IN
            IF ~f.ok THEN Fail ELSE Ok([k |-> "struct"], f.nx, f.u)
       ELSE IF K(toks, j + 1) = "(" THEN
            LET a == ExprList(cp, toks, j + 2, ")", << >>, FALSE) IN
            IF ~a.ok THEN Fail ELSE Ok(MkCall((IF dot THEN << 46 >> ELSE << >>) \o Text(cp, toks[j]), AST!None, a.t), a.nx, a.u)
       ELSE Ok(IdT(Text(cp, toks[j])), j + 1, FALSE)
  ELSE IF k = "(" THEN
       LET e == Expr(cp, toks, i + 1) IN IF ~e.ok \/ K(toks, e.nx) # ")" THEN Fail ELSE Ok(e.t, e.nx + 1, e.u)
  ELSE IF k = "[" THEN
       LET a == ExprList(cp, toks, i + 1, "]", << >>, TRUE) IN
       IF ~a.ok THEN Fail ELSE Ok(IF AnyBad(a.t) THEN BadTree ELSE [k |-> "list", e |-> a.t], a.nx, a.u)
  ELSE IF k = "{" THEN
       LET m == MapEntries(cp, toks, i + 1, << >>, FALSE) IN
       IF ~m.ok THEN Fail
       ELSE Ok(IF \E x \in 1..Len(m.t) : IsBad(m.t[x][1]) \/ IsBad(m.t[x][2]) THEN BadTree ELSE [k |-> "map", e |-> m.t], m.nx, m.u)
  ELSE IF k = "-" /\ K(toks, i + 1) \in {"int", "dbl"} THEN Ok(LitTree(cp, toks[i + 1], TRUE), i + 2, FALSE)
  ELSE IF k \in {"int", "uint", "dbl", "str", "bytes", "true", "false", "null"} THEN Ok(LitTree(cp, toks[i], FALSE), i + 1, FALSE)
  ELSE Fail

\* start : expr EOF
Parse(cp) ==
  LET lx == LX!Lex(cp) IN
  IF ~lx.ok THEN [sentence |-> FALSE, lexerr |-> TRUE]
  ELSE LET e == Expr(cp, lx.toks, 1) IN
       IF e.ok /\ e.nx = Len(lx.toks) + 1 THEN [sentence |-> TRUE, t |-> e.t, u |-> e.u, lexerr |-> FALSE]
       ELSE [sentence |-> FALSE, lexerr |-> FALSE]
Sentence(cp) == Parse(cp).sentence

-----------------------------------------------------------------------------
(* Comparison with the implementation's exported AST (harness/src/enc.rs), modulo Norm: chains of
   && / || are flattened to n-ary form on both sides (the implementation builds balanced trees; the
   property fixes the operand order only). *)
RECURSIVE FlatArgs(_, _)
FlatArgs(fn, args) ==
  IF args = << >> THEN << >>
  ELSE LET a == args[1] IN
       (IF a.k = "call" /\ a.fn = fn /\ a.tgt.k = "none" THEN FlatArgs(fn, a.args) ELSE << a >>) \o FlatArgs(fn, Tail(args))
RECURSIVE TreeSame(_, _)
\* s: specification tree (names as code points), r: recorded tree
TreeSame(s, r) ==
  IF s.k # r.k THEN FALSE
  ELSE CASE s.k = "lit" -> Same(s.v, r.v)
         [] s.k = "id" -> s.ncp = r.ncp
         [] s.k = "sel" -> s.fcp = r.fcp /\ s.test = r.test /\ TreeSame(s.e, r.e)
         [] s.k = "list" -> Len(s.e) = Len(r.e) /\ \A i \in 1..Len(s.e) : TreeSame(s.e[i], r.e[i])
         [] s.k = "map" -> Len(s.e) = Len(r.e) /\ \A i \in 1..Len(s.e) : TreeSame(s.e[i][1], r.e[i][1]) /\ TreeSame(s.e[i][2], r.e[i][2])
         [] s.k = "struct" -> TRUE
         [] s.k = "comp" -> /\ s.varcp = r.varcp /\ r.accucp = AccuT.ncp
                            /\ TreeSame(s.range, r.range) /\ TreeSame(s.init, r.init) /\ TreeSame(s.cond, r.cond)
                            /\ TreeSame(s.step, r.step) /\ TreeSame(s.res, r.res)
         [] s.k = "call" ->
              /\ (IF s.fn # "" THEN r.fn = s.fn ELSE r.fcp = s.fcp)
              /\ (s.tgt.k = "none") = (r.tgt.k = "none")
              /\ (s.tgt.k # "none" => TreeSame(s.tgt, r.tgt))
              /\ LET sa == IF s.fn \in {"_&&_", "_||_"} THEN FlatArgs(s.fn, s.args) ELSE s.args
                     ra == IF s.fn \in {"_&&_", "_||_"} THEN FlatArgs(s.fn, r.args) ELSE r.args
                 IN  Len(sa) = Len(ra) /\ \A i \in 1..Len(sa) : TreeSame(sa[i], ra[i])
=============================================================================
