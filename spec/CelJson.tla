------------------------------- MODULE CelJson -------------------------------
(***************************************************************************)
(* JSON documents and the export of CEL values to them (C18).              *)
(*   [j |-> "null"] [j |-> "bool", v] [j |-> "int", n (BigInt)]            *)
(*   [j |-> "dbl", b (IEEE words)] [j |-> "str", cp]                       *)
(*   [j |-> "arr", e (Seq)] [j |-> "obj", m (Seq of <<key cp, doc>>)]      *)
(* Export(v) = [ok |-> TRUE, j, amb] | [ok |-> FALSE, c]: lists -> arrays, *)
(* maps -> objects keyed by the key's text, bytes -> standard base64 with  *)
(* padding, timestamps -> RFC 3339 text, durations -> nanosecond count,    *)
(* non-finite doubles -> null; function values and durations beyond 64-bit *)
(* nanoseconds are errors.  amb = TRUE when two keys render to the same    *)
(* text (the object then holds one of the colliding entries).              *)
(***************************************************************************)
EXTENDS Naturals, Integers, Sequences, FiniteSets, CelValue
LOCAL N  == INSTANCE BigNat
LOCAL Z  == INSTANCE BigInt
LOCAL NM == INSTANCE Num64
LOCAL DB == INSTANCE Dbl
LOCAL TM == INSTANCE CelTime

JNull == [j |-> "null"]
JBool(b) == [j |-> "bool", v |-> b]
JInt(n) == [j |-> "int", n |-> n]
JDbl(b) == [j |-> "dbl", b |-> b]
JStr(cp) == [j |-> "str", cp |-> cp]
JArr(e) == [j |-> "arr", e |-> e]
JObj(e) == [j |-> "obj", m |-> e]

\* standard base64 alphabet A-Z a-z 0-9 + /
B64(i) == IF i < 26 THEN 65 + i ELSE IF i < 52 THEN 97 + (i - 26) ELSE IF i < 62 THEN 48 + (i - 52) ELSE IF i = 62 THEN 43 ELSE 47
RECURSIVE Base64From(_, _)
Base64From(b, i) ==
  IF i > Len(b) THEN << >>
  ELSE LET b0 == b[i]
           b1 == IF i + 1 <= Len(b) THEN b[i + 1] ELSE 0
           b2 == IF i + 2 <= Len(b) THEN b[i + 2] ELSE 0
           c0 == B64(b0 \div 4)
           c1 == B64((b0 % 4) * 16 + b1 \div 16)
           c2 == IF i + 1 <= Len(b) THEN B64((b1 % 16) * 4 + b2 \div 64) ELSE 61
           c3 == IF i + 2 <= Len(b) THEN B64(b2 % 64) ELSE 61
       IN  << c0, c1, c2, c3 >> \o Base64From(b, i + 3)
Base64(b) == Base64From(b, 1)

RECURSIVE Export(_)
Export(v) ==
  CASE v.t = "null"  -> [ok |-> TRUE, j |-> JNull, amb |-> FALSE]
    [] v.t = "bool"  -> [ok |-> TRUE, j |-> JBool(v.v), amb |-> FALSE]
    [] v.t \in {"int", "uint"} -> [ok |-> TRUE, j |-> JInt(v.n), amb |-> FALSE]
    [] v.t = "dbl"   -> [ok |-> TRUE, j |-> IF DB!IsFinite(v.b) THEN JDbl(v.b) ELSE JNull, amb |-> FALSE]
    [] v.t = "str"   -> [ok |-> TRUE, j |-> JStr(v.cp), amb |-> FALSE]
    [] v.t = "bytes" -> [ok |-> TRUE, j |-> JStr(Base64(v.b)), amb |-> FALSE]
    [] v.t = "dur"   -> IF NM!InI64(v.n) THEN [ok |-> TRUE, j |-> JInt(v.n), amb |-> FALSE] ELSE [ok |-> FALSE, c |-> "json_duration"]
    [] v.t = "ts"    -> [ok |-> TRUE, j |-> [j |-> "ts", v |-> v], amb |-> FALSE]       \* any RFC 3339 text denoting v
    [] v.t = "fn"    -> [ok |-> FALSE, c |-> "json_value"]
    [] v.t = "list"  ->
         LET xs == [i \in 1..Len(v.e) |-> Export(v.e[i])] IN
         IF \E i \in 1..Len(xs) : ~xs[i].ok
         THEN [ok |-> FALSE, c |-> xs[CHOOSE i \in 1..Len(xs) : ~xs[i].ok /\ \A k \in 1..(i - 1) : xs[k].ok].c, anyc |-> TRUE]
         ELSE [ok |-> TRUE, j |-> JArr([i \in 1..Len(xs) |-> xs[i].j]), amb |-> \E i \in 1..Len(xs) : xs[i].amb]
    [] v.t = "map"   ->
         LET xs == [i \in 1..Len(v.e) |-> Export(v.e[i][2])]
             keys == [i \in 1..Len(v.e) |-> KeyText(v.e[i][1])]
             clash == \E i, k \in 1..Len(keys) : i # k /\ keys[i] = keys[k]
         IN  IF \E i \in 1..Len(xs) : ~xs[i].ok
             THEN [ok |-> FALSE, c |-> xs[CHOOSE i \in 1..Len(xs) : ~xs[i].ok].c, anyc |-> TRUE]     \* which failing entry is met first depends on iteration order
             ELSE [ok |-> TRUE, j |-> JObj([i \in 1..Len(xs) |-> << keys[i], xs[i].j >>]), amb |-> clash \/ \E i \in 1..Len(xs) : xs[i].amb]

\* equality of an observed document with an exported one (objects as sets of members; a "ts"
\* placeholder matches any string that denotes the timestamp)
RECURSIVE JSame(_, _)
JSame(x, o) ==
  IF x.j = "ts" THEN o.j = "str" /\ (~TM!InRange(x.v.n) \/ TM!Denotes(o.cp, x.v))
  ELSE IF x.j # o.j THEN FALSE
  ELSE CASE x.j = "null" -> TRUE
         [] x.j = "bool" -> x.v = o.v
         [] x.j = "int"  -> x.n = o.n
         [] x.j = "dbl"  -> x.b = o.b \/ (DB!IsZero(x.b) /\ DB!IsZero(o.b))
         [] x.j = "str"  -> x.cp = o.cp
         [] x.j = "arr"  -> Len(x.e) = Len(o.e) /\ \A i \in 1..Len(x.e) : JSame(x.e[i], o.e[i])
         [] x.j = "obj"  -> /\ Len(x.m) = Len(o.m)
                            /\ \A i \in 1..Len(x.m) : \E k \in 1..Len(o.m) : x.m[i][1] = o.m[k][1] /\ JSame(x.m[i][2], o.m[k][2])

\* a double that is an integer in 64-bit range is still a JSON float ("1.0"); an int is an int
\* JSON document -> CEL value the way serde_json's own Serialize impl presents it:
\* non-negative integers as u64, negative as i64, other numbers as f64
RECURSIVE Import(_)
Import(d) ==
  CASE d.j = "null" -> VNull
    [] d.j = "bool" -> VBool(d.v)
    [] d.j = "int"  -> IF d.n.s >= 0 THEN VUint(d.n) ELSE VInt(d.n)
    [] d.j = "dbl"  -> VDbl(d.b)
    [] d.j = "str"  -> VStr(d.cp)
    [] d.j = "arr"  -> VList([i \in 1..Len(d.e) |-> Import(d.e[i])])
    [] d.j = "obj"  -> VMap([i \in 1..Len(d.m) |-> << VStr(d.m[i][1]), Import(d.m[i][2]) >>])

\* JSON-native values with text-distinct keys: the fragment on which export followed by import is the identity (up to ==)
RECURSIVE JsonNative(_)
JsonNative(v) ==
  CASE v.t \in {"null", "bool", "int", "uint", "str"} -> TRUE
    [] v.t = "dbl"  -> DB!IsFinite(v.b)
    [] v.t = "list" -> \A i \in 1..Len(v.e) : JsonNative(v.e[i])
    [] v.t = "map"  -> /\ \A i \in 1..Len(v.e) : v.e[i][1].t = "str" /\ JsonNative(v.e[i][2])
    [] OTHER -> FALSE
=============================================================================
