-------------------------------- MODULE CelLex --------------------------------
(***************************************************************************)
(* The lexer of CEL.g4 (lines 114-206) as a maximal-munch scanner over     *)
(* code points.  Lex(cp) = [ok |-> TRUE, toks] | [ok |-> FALSE, pos].      *)
(* A token is [k |-> kind, i |-> first position, n |-> length]; kinds:     *)
(*   "id" "escid" "int" "uint" "dbl" "str" "bytes" "true" "false" "null"   *)
(*   "in" and the punctuation / operators spelled as themselves.           *)
(* Whitespace and // comments are skipped (hidden channel).                *)
(***************************************************************************)
EXTENDS Naturals, Integers, Sequences, FiniteSets

IsDigit(c) == c >= 48 /\ c <= 57
IsHex(c) == IsDigit(c) \/ (c >= 97 /\ c <= 102) \/ (c >= 65 /\ c <= 70)
IsLetter(c) == (c >= 65 /\ c <= 90) \/ (c >= 97 /\ c <= 122)
IsIdStart(c) == IsLetter(c) \/ c = 95
IsIdPart(c) == IsIdStart(c) \/ IsDigit(c)
IsWs(c) == c \in {9, 32, 13, 10, 12}
At(cp, i) == IF i >= 1 /\ i <= Len(cp) THEN cp[i] ELSE -1

RECURSIVE Run(_, _, _)
\* length of the run of characters satisfying the class starting at i
Run(cp, i, cls) == IF i <= Len(cp) /\ (CASE cls = "d" -> IsDigit(cp[i]) [] cls = "h" -> IsHex(cp[i]) [] cls = "id" -> IsIdPart(cp[i])
                                        [] cls = "ws" -> IsWs(cp[i]) [] cls = "nonl" -> cp[i] # 10
                                        [] cls = "esc" -> (IsIdPart(cp[i]) \/ cp[i] \in {46, 45, 47, 32}))
                   THEN 1 + Run(cp, i + 1, cls) ELSE 0

\* EXPONENT at i: [eE][+-]?D+  -> length or 0
ExpLen(cp, i) == IF At(cp, i) \in {101, 69}
                 THEN LET s == IF At(cp, i + 1) \in {43, 45} THEN 1 ELSE 0
                          d == Run(cp, i + 1 + s, "d")
                      IN  IF d > 0 THEN 1 + s + d ELSE 0
                 ELSE 0

\* number token at i (cp[i] is a digit or '.'): [k, n] with the longest match, n = 0 if none
NumberAt(cp, i) ==
  LET d == Run(cp, i, "d")
      \* '.' D+ EXP?
      dotFrac == IF At(cp, i + d) = 46 THEN Run(cp, i + d + 1, "d") ELSE 0
      fl1 == IF dotFrac > 0 /\ (d > 0 \/ TRUE) THEN d + 1 + dotFrac + ExpLen(cp, i + d + 1 + dotFrac) ELSE 0     \* D* '.' D+ EXP?  (D+ form and '.' form)
      fl2 == IF d > 0 /\ ExpLen(cp, i + d) > 0 THEN d + ExpLen(cp, i + d) ELSE 0                                   \* D+ EXP
      hx == IF At(cp, i) = 48 /\ At(cp, i + 1) = 120 THEN Run(cp, i + 2, "h") ELSE 0
      hexLen == IF hx > 0 THEN 2 + hx ELSE 0
      intLen == IF hexLen > d THEN hexLen ELSE d
      uLen == IF intLen > 0 /\ At(cp, i + intLen) \in {117, 85} THEN intLen + 1 ELSE 0
      flLen == IF fl1 > fl2 THEN fl1 ELSE fl2
  IN  IF flLen > 0 /\ flLen >= uLen /\ flLen > intLen THEN [k |-> "dbl", n |-> flLen]
      ELSE IF uLen > 0 THEN [k |-> "uint", n |-> uLen]
      ELSE IF intLen > 0 THEN [k |-> "int", n |-> intLen]
      ELSE [k |-> "none", n |-> 0]

\* length of one ESC_SEQ starting at the backslash at i, 0 if it is not one
EscLen(cp, i) ==
  LET c == At(cp, i + 1) IN
  IF c \in {97, 98, 102, 110, 114, 116, 118, 34, 39, 92, 63, 96} THEN 2
  ELSE IF c \in {120, 88} THEN (IF IsHex(At(cp, i + 2)) /\ IsHex(At(cp, i + 3)) THEN 4 ELSE 0)
  ELSE IF c = 117 THEN (IF \A k \in 2..5 : IsHex(At(cp, i + k)) THEN 6 ELSE 0)
  ELSE IF c = 85 THEN (IF \A k \in 2..9 : IsHex(At(cp, i + k)) THEN 10 ELSE 0)
  ELSE IF c >= 48 /\ c <= 51 THEN (IF At(cp, i + 2) >= 48 /\ At(cp, i + 2) <= 55 /\ At(cp, i + 3) >= 48 /\ At(cp, i + 3) <= 55 THEN 4 ELSE 0)
  ELSE 0

\* one-line quoted string starting with quote q at i: total length or 0
RECURSIVE OneLine(_, _, _, _)
OneLine(cp, j, q, raw) ==        \* j: current position inside the body; returns the position AFTER the closing quote or 0
  IF j > Len(cp) THEN 0
  ELSE LET c == cp[j] IN
       IF c = q THEN j + 1
       ELSE IF c \in {10, 13} THEN 0
       ELSE IF c = 92 /\ ~raw THEN (LET e == EscLen(cp, j) IN IF e = 0 THEN 0 ELSE OneLine(cp, j + e, q, raw))
       ELSE OneLine(cp, j + 1, q, raw)
\* triple-quoted: non-greedy up to the first closing delimiter
RECURSIVE Triple(_, _, _, _)
Triple(cp, j, q, raw) ==
  IF j > Len(cp) THEN 0
  ELSE IF cp[j] = q /\ At(cp, j + 1) = q /\ At(cp, j + 2) = q THEN j + 3
  ELSE IF cp[j] = 92 /\ ~raw THEN (LET e == EscLen(cp, j) IN IF e = 0 THEN 0 ELSE Triple(cp, j + e, q, raw))
  ELSE Triple(cp, j + 1, q, raw)

\* STRING at i (no b prefix): length of the longest alternative, 0 if none
StringAt(cp, i) ==
  LET raw == At(cp, i) \in {114, 82}
      s == IF raw THEN i + 1 ELSE i
      q == At(cp, s)
  IN  IF q \notin {34, 39} THEN 0
      ELSE LET one == OneLine(cp, s + 1, q, raw)
               tri == IF At(cp, s + 1) = q /\ At(cp, s + 2) = q THEN Triple(cp, s + 3, q, raw) ELSE 0
               endp == IF tri > one THEN tri ELSE one
           IN  IF endp = 0 THEN 0 ELSE endp - i

Punct2 == { << 61, 61 >>, << 33, 61 >>, << 60, 61 >>, << 62, 61 >>, << 38, 38 >>, << 124, 124 >> }
Punct1 == {91, 93, 123, 125, 40, 41, 46, 44, 45, 33, 63, 58, 43, 42, 47, 37, 60, 62}
PunctName(a, b) == CASE << a, b >> = << 61, 61 >> -> "==" [] << a, b >> = << 33, 61 >> -> "!=" [] << a, b >> = << 60, 61 >> -> "<="
                     [] << a, b >> = << 62, 61 >> -> ">=" [] << a, b >> = << 38, 38 >> -> "&&" [] << a, b >> = << 124, 124 >> -> "||"
Punct1Name(c) == CASE c = 91 -> "[" [] c = 93 -> "]" [] c = 123 -> "{" [] c = 125 -> "}" [] c = 40 -> "(" [] c = 41 -> ")" [] c = 46 -> "."
                   [] c = 44 -> "," [] c = 45 -> "-" [] c = 33 -> "!" [] c = 63 -> "?" [] c = 58 -> ":" [] c = 43 -> "+" [] c = 42 -> "*"
                   [] c = 47 -> "/" [] c = 37 -> "%" [] c = 60 -> "<" [] c = 62 -> ">"
Keyword(cp, i, n) == LET w == SubSeq(cp, i, i + n - 1) IN
                     CASE w = << 116, 114, 117, 101 >> -> "true" [] w = << 102, 97, 108, 115, 101 >> -> "false"
                       [] w = << 110, 117, 108, 108 >> -> "null" [] w = << 105, 110 >> -> "in" [] OTHER -> "id"

\* the token starting at i (not whitespace / comment): [k, n], n = 0 when no rule matches
TokenAt(cp, i) ==
  LET c == cp[i] IN
  IF IsDigit(c) \/ (c = 46 /\ IsDigit(At(cp, i + 1))) THEN NumberAt(cp, i)
  ELSE IF c \in {34, 39} THEN [k |-> "str", n |-> StringAt(cp, i)]
  ELSE IF IsIdStart(c) THEN
       LET idn == Run(cp, i, "id")
           strn == IF c \in {114, 82} THEN StringAt(cp, i) ELSE 0
           bytn == IF c \in {98, 66} /\ StringAt(cp, i + 1) > 0 THEN 1 + StringAt(cp, i + 1) ELSE 0
       IN  IF bytn >= idn /\ bytn > 0 THEN [k |-> "bytes", n |-> bytn]
           ELSE IF strn >= idn /\ strn > 0 THEN [k |-> "str", n |-> strn]
           ELSE [k |-> Keyword(cp, i, idn), n |-> idn]
  ELSE IF c = 96 THEN LET m == Run(cp, i + 1, "esc") IN IF m > 0 /\ At(cp, i + 1 + m) = 96 THEN [k |-> "escid", n |-> m + 2] ELSE [k |-> "none", n |-> 0]
  ELSE IF << c, At(cp, i + 1) >> \in Punct2 THEN [k |-> PunctName(c, At(cp, i + 1)), n |-> 2]
  ELSE IF c \in Punct1 THEN [k |-> Punct1Name(c), n |-> 1]
  ELSE [k |-> "none", n |-> 0]

RECURSIVE LexFrom(_, _, _)
LexFrom(cp, i, acc) ==
  IF i > Len(cp) THEN [ok |-> TRUE, toks |-> acc]
  ELSE IF IsWs(cp[i]) THEN LexFrom(cp, i + Run(cp, i, "ws"), acc)
  ELSE IF cp[i] = 47 /\ At(cp, i + 1) = 47 THEN LexFrom(cp, i + 2 + Run(cp, i + 2, "nonl"), acc)
  ELSE LET t == TokenAt(cp, i) IN
       IF t.n = 0 THEN [ok |-> FALSE, pos |-> i]
       ELSE LexFrom(cp, i + t.n, Append(acc, [k |-> t.k, i |-> i, n |-> t.n]))
Lex(cp) == LexFrom(cp, 1, << >>)
=============================================================================
