----------------------------- MODULE CelLiteral -----------------------------
(***************************************************************************)
(* String and bytes literals: what the source text of ONE literal token    *)
(* denotes (C12).  Text and results are code-point sequences.              *)
(*   literal == [bB]? ( [rR]? quoted )                                     *)
(*   quoted  == ' ... ' | " ... " | ''' ... ''' | """ ... """              *)
(* Non-raw bodies: verbatim characters and the escapes                     *)
(*   \a \b \f \n \r \t \v \\ \? \" \' \`   \xHH \XHH   \uHHHH   \UHHHHHHHH *)
(*   \OOO (first digit 0-3).                                               *)
(* In a string an escape denotes a code point (surrogates and values above *)
(* 10FFFF are errors); in a bytes literal \x and \OOO denote one byte,     *)
(* verbatim text its UTF-8 encoding.  Raw bodies are copied verbatim.      *)
(* Decode(cp) = [ok |-> TRUE, bytes, val, dev] | [ok |-> FALSE]            *)
(***************************************************************************)
EXTENDS Naturals, Integers, Sequences, FiniteSets
LOCAL BF == INSTANCE CelBuiltins

IsHex(c) == (c >= 48 /\ c <= 57) \/ (c >= 97 /\ c <= 102) \/ (c >= 65 /\ c <= 70)
HexVal(c) == IF c <= 57 THEN c - 48 ELSE IF c >= 97 THEN c - 87 ELSE c - 55
IsOct(c) == c >= 48 /\ c <= 55
RECURSIVE HexNum(_, _, _, _)
HexNum(cp, i, n, acc) == IF n = 0 THEN acc ELSE HexNum(cp, i + 1, n - 1, acc * 16 + HexVal(cp[i]))
AllHex(cp, i, n) == i + n - 1 <= Len(cp) /\ \A k \in 0..(n - 1) : IsHex(cp[i + k])

Simple == [c \in {97, 98, 102, 110, 114, 116, 118, 92, 63, 34, 39, 96} |->
             CASE c = 97 -> 7 [] c = 98 -> 8 [] c = 102 -> 12 [] c = 110 -> 10 [] c = 114 -> 13 [] c = 116 -> 9 [] c = 118 -> 11
               [] c = 92 -> 92 [] c = 63 -> 63 [] c = 34 -> 34 [] c = 39 -> 39 [] c = 96 -> 96]

\* one escape starting at the backslash at position i: [ok, len, cp (code point or byte), kind]
EscapeAt(cp, i) ==
  IF i + 1 > Len(cp) THEN [ok |-> FALSE]
  ELSE LET c == cp[i + 1] IN
       IF c \in DOMAIN Simple THEN [ok |-> TRUE, len |-> 2, v |-> Simple[c], kind |-> "simple"]
       ELSE IF c \in {120, 88} THEN (IF AllHex(cp, i + 2, 2) THEN [ok |-> TRUE, len |-> 4, v |-> HexNum(cp, i + 2, 2, 0), kind |-> "x"] ELSE [ok |-> FALSE])
       ELSE IF c = 117 THEN (IF AllHex(cp, i + 2, 4) THEN [ok |-> TRUE, len |-> 6, v |-> HexNum(cp, i + 2, 4, 0), kind |-> "u"] ELSE [ok |-> FALSE])
       ELSE IF c = 85 THEN (IF AllHex(cp, i + 2, 8) /\ HexVal(cp[i + 2]) = 0 /\ HexVal(cp[i + 3]) = 0      \* keeps the value below 2^24
                            THEN [ok |-> TRUE, len |-> 10, v |-> HexNum(cp, i + 4, 6, 0), kind |-> "U"]
                            ELSE IF AllHex(cp, i + 2, 8) THEN [ok |-> TRUE, len |-> 10, v |-> 1114112, kind |-> "U"] ELSE [ok |-> FALSE])
       ELSE IF c >= 48 /\ c <= 51 THEN
            (IF i + 3 <= Len(cp) /\ IsOct(cp[i + 2]) /\ IsOct(cp[i + 3])
             THEN [ok |-> TRUE, len |-> 4, v |-> (c - 48) * 64 + (cp[i + 2] - 48) * 8 + (cp[i + 3] - 48), kind |-> "o"] ELSE [ok |-> FALSE])
       ELSE [ok |-> FALSE]

ValidScalar(v) == v <= 1114111 /\ ~(v >= 55296 /\ v <= 57343)

\* body decoding from position i up to (excluding) position e; q = quote char, triple = three of them
RECURSIVE Body(_, _, _, _, _, _, _, _, _)
Body(cp, i, e, raw, isBytes, q, triple, acc, dev) ==
  IF i >= e THEN [ok |-> TRUE, val |-> acc, dev |-> dev]
  ELSE LET c == cp[i] IN
       IF ~raw /\ c = 92 THEN
            LET x == EscapeAt(cp, i) IN
            IF ~x.ok \/ i + x.len > e THEN [ok |-> FALSE]
            ELSE IF isBytes THEN
                   (IF x.kind \in {"u", "U"} THEN Body(cp, i + x.len, e, raw, isBytes, q, triple, acc \o BF!Utf8Enc1(IF ValidScalar(x.v) THEN x.v ELSE 63), TRUE)
                    ELSE Body(cp, i + x.len, e, raw, isBytes, q, triple, Append(acc, x.v), dev))
            ELSE IF ~ValidScalar(x.v) THEN [ok |-> FALSE]
            ELSE Body(cp, i + x.len, e, raw, isBytes, q, triple, Append(acc, x.v), dev)
       ELSE IF ~triple /\ (c = q \/ c \in {10, 13}) THEN [ok |-> FALSE]                      \* an unescaped quote or a line break ends a one-line literal
       ELSE IF triple /\ c = q /\ i + 2 <= Len(cp) /\ cp[i + 1] = q /\ cp[i + 2] = q THEN [ok |-> FALSE]   \* the closing delimiter occurs before the end
       ELSE Body(cp, i + 1, e, raw, isBytes, q, triple, IF isBytes THEN acc \o BF!Utf8Enc1(c) ELSE Append(acc, c), dev)

Decode(cp) ==
  LET n == Len(cp)
      isBytes == n >= 1 /\ cp[1] \in {98, 66}
      i1 == IF isBytes THEN 2 ELSE 1
      raw == i1 <= n /\ cp[i1] \in {114, 82}
      i2 == IF raw THEN i1 + 1 ELSE i1
      q == IF i2 <= n THEN cp[i2] ELSE 0
      triple == i2 + 2 <= n /\ cp[i2 + 1] = q /\ cp[i2 + 2] = q /\ n - i2 + 1 >= 6
      open == IF triple THEN 3 ELSE 1
      e == n - open + 1                                   \* first position of the closing delimiter
      closes == e >= i2 + open /\ \A k \in 0..(open - 1) : cp[e + k] = q
  IN  IF q \notin {34, 39} \/ ~closes THEN [ok |-> FALSE]
      ELSE LET b == Body(cp, i2 + open, e, raw, isBytes, q, triple, << >>, FALSE) IN
           IF b.ok THEN [ok |-> TRUE, bytes |-> isBytes, val |-> b.val, dev |-> b.dev] ELSE [ok |-> FALSE]

-----------------------------------------------------------------------------
(* Known findings (see known_findings.jsonl): precise descriptions of behaviours of the implementation
   that violate C12 and are pinned by its own tests or live in the generated lexer.  They are never part
   of Decode; the trace specification consults them only for cases Decode rejects, and reports them. *)
\* KF-1: inside a one-line double-quoted (non-raw) string literal the escape \' keeps its backslash
RECURSIVE KF1Body(_, _, _, _)
KF1Body(cp, i, e, acc) ==
  IF i >= e THEN [ok |-> TRUE, val |-> acc]
  ELSE IF cp[i] = 92 THEN
         LET x == EscapeAt(cp, i) IN
         IF ~x.ok \/ i + x.len > e \/ ~ValidScalar(x.v) THEN [ok |-> FALSE]
         ELSE IF cp[i + 1] = 39 THEN KF1Body(cp, i + 2, e, acc \o << 92, 39 >>)
         ELSE KF1Body(cp, i + x.len, e, Append(acc, x.v))
  ELSE IF cp[i] \in {34, 10, 13} THEN [ok |-> FALSE]
  ELSE KF1Body(cp, i + 1, e, Append(acc, cp[i]))
KF_1_DoubleQuoteKeepsBackslash(cp) ==
  IF Len(cp) >= 2 /\ cp[1] = 34 /\ cp[Len(cp)] = 34 /\ ~(Len(cp) >= 6 /\ cp[2] = 34 /\ cp[3] = 34)
     /\ \E i \in 2..(Len(cp) - 2) : cp[i] = 92 /\ cp[i + 1] = 39
  THEN KF1Body(cp, 2, Len(cp), << >>) ELSE [ok |-> FALSE]
\* KF-2: a raw triple-quoted literal containing U+0000 is not recognised as one token (compile error)
KF_2_RawTripleNul(cp) ==
  LET i1 == IF cp # << >> /\ cp[1] \in {98, 66} THEN 2 ELSE 1 IN
  /\ Decode(cp).ok
  /\ i1 + 3 <= Len(cp) /\ cp[i1] \in {114, 82} /\ cp[i1 + 1] \in {34, 39} /\ cp[i1 + 2] = cp[i1 + 1] /\ cp[i1 + 3] = cp[i1 + 1]
  /\ \E i \in 1..Len(cp) : cp[i] = 0
\* KF-3: a raw one-line STRING literal whose body ends in a backslash denotes the body with that backslash replaced by the quote character
KF_3_RawTrailingBackslash(cp) ==
  IF Len(cp) >= 4 /\ cp[1] \in {114, 82} /\ cp[2] \in {34, 39} /\ cp[Len(cp)] = cp[2] /\ cp[Len(cp) - 1] = 92
     /\ ~(Len(cp) >= 7 /\ cp[3] = cp[2] /\ cp[4] = cp[2]) /\ Decode(cp).ok
  THEN [ok |-> TRUE, val |-> SubSeq(cp, 3, Len(cp) - 2) \o << cp[2] >>] ELSE [ok |-> FALSE]

-----------------------------------------------------------------------------
(* Encode: one spelling of a code-point sequence in a style, driven by a choice per character
   (0 = verbatim if the style allows it, 1.. = the escape spellings).  Used by the model to state
   Decode(Encode(s, style, choices)) = s. *)
Hex(d) == IF d < 10 THEN 48 + d ELSE 87 + d
RECURSIVE HexDigits(_, _)
HexDigits(v, n) == IF n = 0 THEN << >> ELSE HexDigits(v \div 16, n - 1) \o << Hex((v % 16)) >>
Oct3(v) == << 48 + (v \div 64), 48 + ((v \div 8) % 8), 48 + (v % 8) >>
EscSimpleOf(c) == CASE c = 7 -> 97 [] c = 8 -> 98 [] c = 12 -> 102 [] c = 10 -> 110 [] c = 13 -> 114 [] c = 9 -> 116 [] c = 11 -> 118
                    [] c = 92 -> 92 [] c = 63 -> 63 [] c = 34 -> 34 [] c = 39 -> 39 [] c = 96 -> 96 [] OTHER -> 0
\* spellings of one code point c inside a non-raw string literal quoted with q (single-quoted form)
Spellings(c, q, triple) ==
  (IF c # 92 /\ (triple \/ (c # q /\ c \notin {10, 13})) THEN { << c >> } ELSE {})
  \cup (IF EscSimpleOf(c) # 0 THEN { << 92, EscSimpleOf(c) >> } ELSE {})
  \cup (IF c < 256 THEN { << 92, 120 >> \o HexDigits(c, 2), << 92, 88 >> \o HexDigits(c, 2), << 92 >> \o Oct3(c) } ELSE {})
  \cup (IF c < 65536 THEN { << 92, 117 >> \o HexDigits(c, 4) } ELSE {})
  \cup { << 92, 85 >> \o HexDigits(c, 8) }
=============================================================================
