SPECIFICATION Spec
CONSTANT MaxLen = 2
INVARIANTS RoundTrip AlwaysLiteral
CHECK_DEADLOCK FALSE
