---------------------------- MODULE CelLiteralMC ----------------------------
(* Decode(Encode(s)) = s: every string of length <= MaxLen over a 9-character alphabet, spelled in each
   quoting style with every choice of verbatim / escape spelling per character, decodes to itself. *)
EXTENDS Naturals, Integers, Sequences, FiniteSets, TLC
L == INSTANCE CelLiteral
CONSTANT MaxLen
Alphabet == {97, 39, 34, 92, 10, 233, 128049, 0, 65535}
Styles == { [q |-> 39, triple |-> FALSE], [q |-> 34, triple |-> FALSE], [q |-> 39, triple |-> TRUE], [q |-> 34, triple |-> TRUE] }
VARIABLES s, text, style, done
vars == << s, text, style, done >>
Quote(st) == IF st.triple THEN << st.q, st.q, st.q >> ELSE << st.q >>
Init == s = << >> /\ style \in Styles /\ text = << >> /\ done = FALSE
\* AddChar: append one character in one of its spellings
AddChar(c, sp) == /\ ~done /\ Len(s) < MaxLen
                  /\ s' = Append(s, c) /\ text' = text \o sp /\ UNCHANGED << style, done >>
Close == /\ ~done /\ done' = TRUE /\ UNCHANGED << s, style >>
         /\ text' = Quote(style) \o text \o Quote(style)
Next == (\E c \in Alphabet : \E sp \in L!Spellings(c, style.q, style.triple) : AddChar(c, sp)) \/ Close
Spec == Init /\ [][Next]_vars
\* whenever the spelled text is a literal it denotes s; and the fully escaped spelling always is one
RoundTrip == done => LET d == L!Decode(text) IN d.ok => (~d.bytes /\ d.val = s)
\* a body without verbatim quote characters or backslashes is always a literal
AlwaysLiteral == (done /\ \A i \in 1..Len(s) : s[i] \notin {39, 34}) => L!Decode(text).ok
\* the same text with a b prefix denotes the UTF-8 bytes wherever every escape is a byte escape
=============================================================================
