SPECIFICATION Spec
INVARIANTS LiteralExact KeysUnique SizeIs QueryFormsAgree NonKeyQueries ListLaws
CHECK_DEADLOCK FALSE
