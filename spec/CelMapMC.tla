------------------------------ MODULE CelMapMC ------------------------------
(***************************************************************************)
(* The map / list model behind C14: maps are grown by inserting keys of    *)
(* the alphabet one at a time (a map literal's entries in source order),   *)
(* then queried.  The invariants state what every query form must say, in  *)
(* terms of the one notion "key k is present in m" (twin int/uint keys     *)
(* count as the same key), and the list laws.                              *)
(***************************************************************************)
EXTENDS Naturals, Integers, Sequences, FiniteSets, TLC, CelValue
LOCAL Z == INSTANCE BigInt
LOCAL BF == INSTANCE CelBuiltins
LOCAL EV == INSTANCE CelEval

Keys == { VIntN(1), VUintN(1), VUintN(2), VIntN(-1), VUintN(0), VBool(TRUE), VStr(<<97>>), VStr(<<98>>), VStr(<<107, 49>>) }
Queries == Keys \cup { VIntN(2), VUintN(0), VIntN(0), VBool(FALSE), VStr(<<122>>), VDbl(<<16368, 0, 0, 0>>), VNull }

VARIABLES written, m, q, phase
vars == << written, m, q, phase >>

Init == written = << >> /\ m = VMap(<< >>) /\ q = VNull /\ phase = "build"
\* Insert: the next entry of a map literal (value = position, so that entries are distinguishable)
Insert(k) == /\ phase = "build" /\ Len(written) < 4
             /\ written' = Append(written, k)
             /\ m' = VMap(MapInsert(m.e, k, VIntN(10 + Len(written))))
             /\ UNCHANGED << q, phase >>
Query(k) == /\ phase = "build" /\ phase' = "query" /\ q' = k /\ UNCHANGED << written, m >>
Next == (\E k \in Keys : Insert(k)) \/ (\E k \in Queries : Query(k))
Spec == Init /\ [][Next]_vars

Distinct == \A i, j \in 1..Len(written) : i # j => ~SameKey(written[i], written[j])
Present(k) == \E i \in 1..Len(m.e) : SameKey(m.e[i][1], k)

\* a literal with pairwise distinct keys contains exactly the written entries, in order
LiteralExact == Distinct => /\ Len(m.e) = Len(written)
                            /\ \A i \in 1..Len(written) : m.e[i] = << written[i], VIntN(10 + i - 1) >>
\* keys of a map are always pairwise distinct (exact identity); a repeated key overwrites
KeysUnique == \A i, j \in 1..Len(m.e) : i # j => ~SameKeyExact(m.e[i][1], m.e[j][1])
SizeIs == BF!Size(m).v = VIntN(Len(m.e))

\* every way of asking about q gives the answer Present(q)
QueryFormsAgree ==
  (phase = "query" /\ IsKeyKind(q)) =>
    /\ Membership(q, m).v = VBool(Present(q))
    /\ BF!ContainsFn(m, q).v = VBool(Present(q))
    /\ (IndexOp(m, q).v # VNull) = Present(q)
    /\ q.t = "str" => /\ (SelectOp(m, q.cp, FALSE).k = "v") = Present(q)
                      /\ HasOp(m, q.cp).v = VBool(Present(q))
    /\ (Present(q) /\ ~AmbiguousKey(m, q)) => IndexOp(m, q).v = m.e[FindKey(m, q)][2]
NonKeyQueries == (phase = "query" /\ ~IsKeyKind(q)) => IndexOp(m, q).k = "e"

\* lists: in range -> that element, out of range -> null; size additive; concatenation keeps order
L(n) == VList([i \in 1..n |-> VIntN(10 + i)])
ListLaws ==
  \A n \in 0..3 :
    /\ \A i \in -2..(n + 1) : IndexOp(L(n), VIntN(i)).v = (IF i >= 0 /\ i < n THEN VIntN(10 + i + 1) ELSE VNull)
    /\ \A k \in 0..2 : LET s == Arith("add", L(n), L(k)).v IN
         /\ BF!Size(s).v = VIntN(n + k)
         /\ \A i \in 1..n : s.e[i] = L(n).e[i]
         /\ \A i \in 1..k : s.e[n + i] = L(k).e[i]
    /\ \A x \in {VIntN(11), VUintN(11), VIntN(99)} : Membership(x, L(n)).v = VBool(\E i \in 1..n : Eq(x, L(n).e[i]))
=============================================================================
