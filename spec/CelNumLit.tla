------------------------------ MODULE CelNumLit ------------------------------
(***************************************************************************)
(* Numeric conversions int() uint() double() string() on values, and the   *)
(* denotation of numeric literals.                                         *)
(***************************************************************************)
EXTENDS Naturals, Integers, Sequences, FiniteSets, CelValue
LOCAL N  == INSTANCE BigNat
LOCAL Z  == INSTANCE BigInt
LOCAL NM == INSTANCE Num64
LOCAL DB == INSTANCE Dbl
LOCAL DU == INSTANCE CelDuration

ConvErr == {"fnerr", "overflow", "type"}          \* "an error": which variant reports it is not pinned

IsDigit(c) == c >= 48 /\ c <= 57
AllDigits(cp) == cp # << >> /\ \A i \in 1..Len(cp) : IsDigit(cp[i])
DigitsOf(cp) == [i \in 1..Len(cp) |-> cp[i] - 48]

\* decimal text with optional sign -> [ok, n, plus]
ParseDecimal(cp) ==
  IF cp = << >> THEN [ok |-> FALSE]
  ELSE LET signed == cp[1] \in {43, 45}
           body == IF signed THEN Tail(cp) ELSE cp
       IN  IF ~AllDigits(body) \/ Len(body) > 40 THEN [ok |-> FALSE]
           ELSE [ok |-> TRUE, plus |-> signed /\ cp[1] = 43,
                 n |-> Z!Z(IF signed /\ cp[1] = 45 THEN -1 ELSE 1, N!FromDigits(DigitsOf(body), 10))]

IntText(n) == (IF n.s < 0 THEN << 45 >> ELSE << >>) \o DigitCps(N!ToDigits(n.m))

LOCAL Utf8Cont(b) == b >= 128 /\ b < 192

ToIntFn(v) ==
  CASE v.t = "int"  -> R(v)
    [] v.t = "uint" -> IF NM!InI64(v.n) THEN R(VInt(v.n)) ELSE E(ConvErr)
    [] v.t = "dbl"  -> IF v.b = << >> THEN D(R(VIntN(0)))
                       ELSE IF ~DB!IsFinite(v.b) THEN E(ConvErr)
                       ELSE IF ~DB!MagBelowPow2(v.b, 64) THEN E(ConvErr)
                       ELSE LET t == DB!Trunc(v.b) IN IF NM!InI64(t) THEN R(VInt(t)) ELSE E(ConvErr)
    [] v.t = "str"  -> LET p == ParseDecimal(v.cp) IN
                       IF ~p.ok THEN E(ConvErr)
                       ELSE LET r == IF NM!InI64(p.n) THEN R(VInt(p.n)) ELSE E(ConvErr)
                            IN  IF p.plus THEN D(r) ELSE r
    [] v.t = "ts"   -> D(E(ConvErr \cup {"type"}))        \* CEL: epoch seconds; not implemented
    [] OTHER        -> E(ConvErr \cup {"type"})

ToUintFn(v) ==
  CASE v.t = "uint" -> R(v)
    [] v.t = "int"  -> IF NM!InU64(v.n) THEN R(VUint(v.n)) ELSE E(ConvErr)
    [] v.t = "dbl"  -> IF v.b = << >> THEN D(R(VUintN(0)))
                       ELSE IF ~DB!IsFinite(v.b) THEN E(ConvErr)
                       ELSE IF ~DB!MagBelowPow2(v.b, 65) THEN E(ConvErr)
                       ELSE LET t == DB!Trunc(v.b) IN
                            IF t.s = 0 /\ DB!Neg(v.b) /\ ~DB!IsZero(v.b) THEN D(R(VUintN(0)))   \* -1 < d < 0
                            ELSE IF NM!InU64(t) THEN R(VUint(t)) ELSE E(ConvErr)
    [] v.t = "str"  -> LET p == ParseDecimal(v.cp) IN
                       IF ~p.ok THEN E(ConvErr)
                       ELSE IF v.cp[1] = 45 THEN (IF p.n.s = 0 THEN D(E(ConvErr)) ELSE E(ConvErr))
                       ELSE LET r == IF NM!InU64(p.n) THEN R(VUint(p.n)) ELSE E(ConvErr)
                            IN  IF p.plus THEN D(r) ELSE r
    [] OTHER        -> E(ConvErr \cup {"type"})

ToDoubleFn(v) ==
  CASE v.t = "dbl"  -> R(v)
    [] v.t \in {"int", "uint"} -> LET b == DB!OfIntExact(v.n) IN
                                  IF b = << >> THEN D(R(AnyDbl)) ELSE R(VDbl(b))   \* above 2^53: either neighbour
    [] v.t = "str"  -> D(R(AnyDbl))
    [] OTHER        -> E(ConvErr \cup {"type"})

-----------------------------------------------------------------------------
(* Numeric literal text (and the same grammars for double(string)) *)
IsHex(c) == IsDigit(c) \/ (c >= 97 /\ c <= 102) \/ (c >= 65 /\ c <= 70)
HexVal(c) == IF IsDigit(c) THEN c - 48 ELSE IF c >= 97 THEN c - 87 ELSE c - 55
RECURSIVE DigitRun(_, _)
DigitRun(cp, i) == IF i <= Len(cp) /\ IsDigit(cp[i]) THEN 1 + DigitRun(cp, i + 1) ELSE 0

\* decimal floating text  D+ '.' D+ EXP? | D+ EXP | '.' D+ EXP?   (no sign) -> [ok, M, E10]
ParseFloatBody(cp) ==
  LET ni == DigitRun(cp, 1)
      hasDot == ni + 1 <= Len(cp) /\ cp[ni + 1] = 46
      nf == IF hasDot THEN DigitRun(cp, ni + 2) ELSE 0
      j == ni + (IF hasDot THEN 1 + nf ELSE 0) + 1                       \* position after the mantissa
      hasExp == j <= Len(cp) /\ cp[j] \in {101, 69}
      esign == IF hasExp /\ j + 1 <= Len(cp) /\ cp[j + 1] \in {43, 45} THEN 1 ELSE 0
      ne == IF hasExp THEN DigitRun(cp, j + 1 + esign) ELSE 0
      endp == j + (IF hasExp THEN 1 + esign + ne ELSE 0)
      shape == /\ endp = Len(cp) + 1
               /\ (hasDot => nf >= 1) /\ (hasExp => ne >= 1 /\ ne <= 6)
               /\ (ni >= 1 \/ hasDot) /\ (hasDot \/ hasExp)              \* a float has a fraction or an exponent
      digs == [k \in 1..(ni + nf) |-> IF k <= ni THEN cp[k] - 48 ELSE cp[ni + 1 + (k - ni)] - 48]
      ev == IF hasExp THEN (IF esign = 1 /\ cp[j + 1] = 45 THEN -1 ELSE 1) * N!ToNat(N!FromDigits([k \in 1..ne |-> cp[j + esign + k] - 48], 10)) ELSE 0
  IN  IF ~shape \/ ni + nf > 800 THEN [ok |-> FALSE]
      ELSE [ok |-> TRUE, M |-> N!FromDigits(digs, 10), E10 |-> ev - nf]

\* does the double with words b denote the correctly rounded value of the (optionally signed) decimal text?
\* [ok (text is a float), matches, overflow]
FloatTextVsDouble(cp, b) ==
  LET neg == cp # << >> /\ cp[1] = 45
      body == IF neg THEN Tail(cp) ELSE cp
      p == ParseFloatBody(body)
  IN  IF ~p.ok THEN [ok |-> FALSE]
      ELSE LET tooBig == p.E10 > 400 \/ (4 * Len(p.M) + p.E10 > 300 /\ DB!Overflows(p.M, p.E10))     \* fewer than 300 digits cannot overflow
               tiny == p.E10 < -1200
           IN [ok |-> TRUE, overflow |-> tooBig,
               matches |-> IF b = << >> THEN TRUE
                           ELSE IF tooBig THEN DB!IsInf(b) /\ DB!Neg(b) = neg
                           ELSE /\ DB!IsFinite(b) /\ (DB!Neg(b) = neg \/ N!IsZero(p.M))
                                /\ (IF tiny THEN DB!IsZero(b) ELSE DB!RoundsTo(p.M, p.E10, [i \in 1..4 |-> IF i = 1 THEN b[1] % 32768 ELSE b[i]]))]

\* classification of a numeric literal's source text: [kind, ...]
NumLit(cp) ==
  LET neg == cp # << >> /\ cp[1] = 45
      body == IF neg THEN Tail(cp) ELSE cp
      n == Len(body)
      isU == n >= 2 /\ body[n] \in {117, 85}
      core == IF isU THEN SubSeq(body, 1, n - 1) ELSE body
      isHexLit == Len(core) >= 3 /\ core[1] = 48 /\ core[2] = 120 /\ \A i \in 3..Len(core) : IsHex(core[i])
      isDec == core # << >> /\ \A i \in 1..Len(core) : IsDigit(core[i])
      mag == IF isHexLit THEN N!FromDigits([i \in 1..(Len(core) - 2) |-> HexVal(core[i + 2])], 16)
             ELSE IF isDec THEN N!FromDigits(DigitsOf(core), 10) ELSE << >>
  IN  IF (isHexLit \/ isDec) /\ Len(core) <= 60 THEN
           (IF isU THEN (IF neg THEN [kind |-> "bad"] ELSE [kind |-> "uint", n |-> Z!Z(1, mag)])
            ELSE [kind |-> "int", n |-> Z!Z(IF neg THEN -1 ELSE 1, mag)])
      ELSE IF ~isU /\ ParseFloatBody(body).ok THEN [kind |-> "dbl"]
      ELSE [kind |-> "bad"]

\* what compiling and evaluating a numeric literal must give: R(value) | E({"compile"}) ; doubles are judged by LitMatches
LitExpected(cp) ==
  LET c == NumLit(cp) IN
  CASE c.kind = "int"  -> IF NM!InI64(c.n) THEN R(VInt(c.n)) ELSE E({"compile"})
    [] c.kind = "uint" -> IF NM!InU64(c.n) THEN R(VUint(c.n)) ELSE E({"compile"})
    [] c.kind = "dbl"  -> R(AnyDbl)
    [] c.kind = "bad"  -> D(E({"compile"}))

\* string(double): the text printed must parse back (as a decimal, or NaN / inf / -inf) to the same double
DblTextDenotes(cp, b) ==
  IF DB!IsNaN(b) THEN cp = <<78, 97, 78>>
  ELSE IF DB!IsInf(b) THEN cp = (IF DB!Neg(b) THEN <<45, 105, 110, 102>> ELSE <<105, 110, 102>>)
  ELSE LET neg == cp # << >> /\ cp[1] = 45
           body == IF neg THEN Tail(cp) ELSE cp
           \* Rust prints integers-valued doubles without a fraction ("1", "100000"): accept D+ as well
           asFloat == IF ParseFloatBody(body).ok THEN ParseFloatBody(body)
                      ELSE IF AllDigits(body) /\ Len(body) <= 800 THEN [ok |-> TRUE, M |-> N!FromDigits(DigitsOf(body), 10), E10 |-> 0]
                      ELSE [ok |-> FALSE]
       IN  /\ asFloat.ok /\ neg = DB!Neg(b)
           /\ DB!RoundsTo(asFloat.M, asFloat.E10, [i \in 1..4 |-> IF i = 1 THEN b[1] % 32768 ELSE b[i]])

ToStringFn(v) ==
  CASE v.t = "str"   -> R(v)
    [] v.t = "int"   -> R(VStr(IntText(v.n)))
    [] v.t = "uint"  -> R(VStr(IntText(v.n)))
    [] v.t = "dbl"   -> D(R(VStr(<< >>)))
    [] v.t = "bytes" -> D(R(VStr(<< >>)))      \* lossy decoding of invalid UTF-8 is not pinned (valid UTF-8 is checked via the round trip)
    [] v.t = "dur"   -> DU!ToStringDur(v)
    [] v.t = "ts"    -> D(R(VStr(<< >>)))
    [] v.t = "bool"  -> D(E(ConvErr \cup {"type"}))
    [] OTHER         -> E(ConvErr \cup {"type"})
=============================================================================
