------------------------------ MODULE CelNumLit ------------------------------
(***************************************************************************)
(* Numeric conversions int() uint() double() string() on values, and the   *)
(* denotation of numeric literals.                                         *)
(***************************************************************************)
EXTENDS Naturals, Integers, Sequences, FiniteSets, CelValue
LOCAL N  == INSTANCE BigNat
LOCAL Z  == INSTANCE BigInt
LOCAL NM == INSTANCE Num64
LOCAL DB == INSTANCE Dbl
LOCAL DU == INSTANCE CelDuration

ConvErr == {"fnerr", "overflow"}

IsDigit(c) == c >= 48 /\ c <= 57
AllDigits(cp) == cp # << >> /\ \A i \in 1..Len(cp) : IsDigit(cp[i])
DigitsOf(cp) == [i \in 1..Len(cp) |-> cp[i] - 48]

\* decimal text with optional sign -> [ok, n, plus]
ParseDecimal(cp) ==
  IF cp = << >> THEN [ok |-> FALSE]
  ELSE LET signed == cp[1] \in {43, 45}
           body == IF signed THEN Tail(cp) ELSE cp
       IN  IF ~AllDigits(body) \/ Len(body) > 40 THEN [ok |-> FALSE]
           ELSE [ok |-> TRUE, plus |-> signed /\ cp[1] = 43,
                 n |-> Z!Z(IF signed /\ cp[1] = 45 THEN -1 ELSE 1, N!FromDigits(DigitsOf(body), 10))]

IntText(n) == (IF n.s < 0 THEN << 45 >> ELSE << >>) \o DigitCps(N!ToDigits(n.m))

LOCAL Utf8Cont(b) == b >= 128 /\ b < 192

ToIntFn(v) ==
  CASE v.t = "int"  -> R(v)
    [] v.t = "uint" -> IF NM!InI64(v.n) THEN R(VInt(v.n)) ELSE E(ConvErr)
    [] v.t = "dbl"  -> IF v.b = << >> THEN D(R(VIntN(0)))
                       ELSE IF ~DB!IsFinite(v.b) THEN E(ConvErr)
                       ELSE IF ~DB!MagBelowPow2(v.b, 64) THEN E(ConvErr)
                       ELSE LET t == DB!Trunc(v.b) IN IF NM!InI64(t) THEN R(VInt(t)) ELSE E(ConvErr)
    [] v.t = "str"  -> LET p == ParseDecimal(v.cp) IN
                       IF ~p.ok THEN E(ConvErr)
                       ELSE LET r == IF NM!InI64(p.n) THEN R(VInt(p.n)) ELSE E(ConvErr)
                            IN  IF p.plus THEN D(r) ELSE r
    [] v.t = "ts"   -> D(E(ConvErr \cup {"type"}))        \* CEL: epoch seconds; not implemented
    [] OTHER        -> E(ConvErr \cup {"type"})

ToUintFn(v) ==
  CASE v.t = "uint" -> R(v)
    [] v.t = "int"  -> IF NM!InU64(v.n) THEN R(VUint(v.n)) ELSE E(ConvErr)
    [] v.t = "dbl"  -> IF v.b = << >> THEN D(R(VUintN(0)))
                       ELSE IF ~DB!IsFinite(v.b) THEN E(ConvErr)
                       ELSE IF ~DB!MagBelowPow2(v.b, 65) THEN E(ConvErr)
                       ELSE LET t == DB!Trunc(v.b) IN
                            IF t.s = 0 /\ DB!Neg(v.b) /\ ~DB!IsZero(v.b) THEN D(R(VUintN(0)))   \* -1 < d < 0
                            ELSE IF NM!InU64(t) THEN R(VUint(t)) ELSE E(ConvErr)
    [] v.t = "str"  -> LET p == ParseDecimal(v.cp) IN
                       IF ~p.ok THEN E(ConvErr)
                       ELSE IF v.cp[1] = 45 THEN (IF p.n.s = 0 THEN D(E(ConvErr)) ELSE E(ConvErr))
                       ELSE LET r == IF NM!InU64(p.n) THEN R(VUint(p.n)) ELSE E(ConvErr)
                            IN  IF p.plus THEN D(r) ELSE r
    [] OTHER        -> E(ConvErr \cup {"type"})

ToDoubleFn(v) ==
  CASE v.t = "dbl"  -> R(v)
    [] v.t \in {"int", "uint"} -> LET b == DB!OfIntExact(v.n) IN
                                  IF b = << >> THEN D(R(AnyDbl)) ELSE R(VDbl(b))   \* above 2^53: either neighbour
    [] v.t = "str"  -> D(R(AnyDbl))
    [] OTHER        -> E(ConvErr \cup {"type"})

ToStringFn(v) ==
  CASE v.t = "str"   -> R(v)
    [] v.t = "int"   -> R(VStr(IntText(v.n)))
    [] v.t = "uint"  -> R(VStr(IntText(v.n)))
    [] v.t = "dbl"   -> D(R(VStr(<< >>)))
    [] v.t = "bytes" -> D(R(VStr(<< >>)))
    [] v.t = "dur"   -> DU!ToStringDur(v)
    [] v.t = "ts"    -> D(R(VStr(<< >>)))
    [] v.t = "bool"  -> D(E(ConvErr \cup {"type"}))
    [] OTHER         -> E(ConvErr \cup {"type"})
=============================================================================
