SPECIFICATION Spec
INVARIANTS Classify Ranges Rounding
CHECK_DEADLOCK FALSE
