---------------------------- MODULE CelNumLitMC ----------------------------
(* Laws of CelNumLit / Dbl on boundary sets: integer literal classification and ranges; the rounding
   interval test RoundsTo accepts exactly the doubles adjacent to a decimal; conversions. *)
EXTENDS Naturals, Integers, Sequences, FiniteSets, TLC, CelValue
LOCAL Z == INSTANCE BigInt
LOCAL N == INSTANCE BigNat
NL == INSTANCE CelNumLit
DB == INSTANCE Dbl
Texts == { <<48>>, <<45, 49>>, <<57, 50, 50, 51, 51, 55, 50, 48, 51, 54, 56, 53, 52, 55, 55, 53, 56, 48, 55>>,        \* 0, -1, 9223372036854775807
           <<57, 50, 50, 51, 51, 55, 50, 48, 51, 54, 56, 53, 52, 55, 55, 53, 56, 48, 56>>,                              \* 9223372036854775808
           <<45, 57, 50, 50, 51, 51, 55, 50, 48, 51, 54, 56, 53, 52, 55, 55, 53, 56, 48, 56>>,                          \* -9223372036854775808
           <<48, 120, 49, 48>>, <<45, 48, 120, 49, 48>>, <<49, 117>>, <<45, 49, 117>>, <<48, 46, 53>>, <<49, 101, 51>>, <<46, 53>>, <<49, 46>>, <<120>> }
VARIABLE t
Init == t \in Texts
Next == UNCHANGED t
Spec == Init /\ [][Next]_t
Hex16 == <<48, 120, 49, 48>>
Classify ==
  /\ NL!NumLit(<<48>>) = [kind |-> "int", n |-> Z!Zero]
  /\ NL!NumLit(Hex16) = [kind |-> "int", n |-> Z!FromInt(16)]
  /\ NL!NumLit(<<45>> \o Hex16) = [kind |-> "int", n |-> Z!FromInt(-16)]
  /\ NL!NumLit(<<49, 117>>).kind = "uint" /\ NL!NumLit(<<45, 49, 117>>).kind = "bad"
  /\ NL!NumLit(<<48, 46, 53>>).kind = "dbl" /\ NL!NumLit(<<49, 101, 51>>).kind = "dbl" /\ NL!NumLit(<<46, 53>>).kind = "dbl"
  /\ NL!NumLit(<<49, 46>>).kind = "bad" /\ NL!NumLit(<<120>>).kind = "bad"
Ranges ==
  LET x == NL!LitExpected(t) c == NL!NumLit(t) IN
  /\ (c.kind = "int" => (x.k = "v" <=> (Z!Le(Z!Neg(Z!Pow2(63)), c.n) /\ Z!Lt(c.n, Z!Pow2(63)))))
  /\ (c.kind = "uint" => (x.k = "v" <=> Z!Lt(c.n, Z!Pow2(64))))
\* 0.5 = 2^-1 exactly; 1e3 = 1000; the test must accept exactly those doubles (and reject their neighbours)
Half == <<16352, 0, 0, 0>>
HalfUp == <<16352, 0, 0, 1>>
K1000 == <<16527, 16384, 0, 0>>
Rounding ==
  /\ DB!RoundsTo(<<5>>, -1, Half) /\ ~DB!RoundsTo(<<5>>, -1, HalfUp)
  /\ DB!RoundsTo(<<1>>, 3, K1000) /\ ~DB!RoundsTo(<<1001>>, 0, K1000)
  /\ DB!RoundsTo(<<1>>, -1, <<16313, 39321, 39321, 39322>>)                 \* 0.1 -> 0x3FB999999999999A
  /\ ~DB!RoundsTo(<<1>>, -1, <<16313, 39321, 39321, 39321>>)
  /\ DB!Overflows(<<18>>, 307) /\ ~DB!Overflows(<<17>>, 307)
  /\ DB!WithinUlp(N!Add(DB!P2[53], <<1>>), 0, <<17216, 0, 0, 0>>) /\ DB!WithinUlp(N!Add(DB!P2[53], <<1>>), 0, <<17216, 0, 0, 1>>)
  /\ ~DB!WithinUlp(N!Add(DB!P2[53], <<1>>), 0, <<17216, 0, 0, 2>>)
=============================================================================
