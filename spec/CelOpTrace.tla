----------------------------- MODULE CelOpTrace -----------------------------
(***************************************************************************)
(* Trace specification for single operator applications: the harness       *)
(* applies one operator to two values -- spelled as literals, as context   *)
(* variables, or through the host-side operator impls on Value -- and      *)
(* records the outcome.  Accepted iff the outcome is what CelValue (the    *)
(* value-level reference semantics, built on Num64 / Dbl) prescribes.      *)
(***************************************************************************)
EXTENDS Naturals, Integers, Sequences, FiniteSets, TLC, TLCExt, Json, IOUtils, CelValue
LOCAL EV == INSTANCE CelEval
LOCAL BF == INSTANCE CelBuiltins
LOCAL NL == INSTANCE CelNumLit
LOCAL DU == INSTANCE CelDuration
LOCAL TM == INSTANCE CelTime
LOCAL ZZ == INSTANCE BigInt
LOCAL DBX == INSTANCE Dbl
LOCAL LT == INSTANCE CelLiteral
LOCAL NM64 == INSTANCE Num64
LOCAL RXX == INSTANCE CelRegex

Rec == ndJsonDeserialize(IOEnv.TRACE)

VARIABLES l, bad, ndev, kf
vars == << l, bad, ndev, kf >>

Expected(r) ==
  CASE r.op \in {"add", "sub", "mul", "div", "rem", "eq", "ne", "lt", "le", "gt", "ge", "in", "idx"} -> EV!ApplyBin(r.op, r.a, r.b)
    [] r.op = "neg"  -> Negate(r.a)
    [] r.op = "not"  -> EV!ApplyUn("!_", r.a)
    [] r.op = "heq"  -> (IF HasNumKeyMap(r.a) /\ HasNumKeyMap(r.b) THEN D(R(VBool(Eq(r.a, r.b)))) ELSE R(VBool(Eq(r.a, r.b))))
    [] r.op = "hcmp" -> R(VStr(<< >>))      \* handled by CmpMatches
    [] r.op \in {"min", "max"} -> BF!MinMax(<< r.a, r.b >>, r.op = "max")
    [] r.op \in {"minl", "maxl"} -> BF!MinMax(<< r.a >>, r.op = "maxl")
    [] r.op = "contains" -> BF!ContainsFn(r.a, r.b)
    [] r.op = "matches" -> BF!MatchesFn(r.a, r.b)
    [] r.op = "rxtable" ->        \* a = list of texts, b = one pattern: the list of answers, or (invalid pattern) an error for all of them
         (LET p == RXX!Parse(r.b.cp) IN
          IF p.ok THEN R(VList([i \in 1..Len(r.a.e) |-> VBool(RXX!IsMatch(p.node, r.a.e[i].cp))])) ELSE D(R(VList(<< >>))))
    [] r.op = "size" -> BF!Size(r.a)
    [] r.op = "has" -> HasOp(r.a, r.b.cp)
    [] r.op = "sel" -> SelectOp(r.a, r.b.cp, FALSE)
    [] r.op = "self" -> SelectOp(r.a, r.b.cp, TRUE)               \* the field also names a registered function
    [] r.op = "tostr" -> NL!ToStringFn(r.a)
    [] r.op = "durparse" -> DU!DurationFn(r.a)
    [] r.op = "durrt" -> IF NM64!InI64(r.a.n) THEN R(VBool(TRUE)) ELSE D(R(VBool(TRUE)))     \* duration(string(d)) == d
    [] r.op = "durrt2" -> IF NM64!InI64(r.a.n) THEN R(r.a) ELSE D(R(r.a))
    [] r.op = "tsparse" -> TM!TimestampFn(r.a)
    [] r.op \in {"acc:getFullYear", "acc:getMonth", "acc:getDayOfYear", "acc:getDayOfMonth", "acc:getDate", "acc:getDayOfWeek",
                 "acc:getHours", "acc:getMinutes", "acc:getSeconds", "acc:getMilliseconds"} ->
         TM!Accessor(CHOOSE n \in TM!Accessors : r.op = "acc:" \o n, r.a)
    [] r.op = "tsstr" -> R(VStr(<< >>))            \* handled by TsStrMatches
    [] r.op = "tsrt" -> IF TM!InRange(r.a.n) THEN R(VBool(TRUE)) ELSE D(R(VBool(TRUE)))          \* timestamp(string(t)) == t
    [] r.op \in {"tslaw1", "tslaw2"} ->                                                          \* t + d - d == t, (t + d) - t == d
         LET s == TM!PlusDur(r.a, r.b, 1) IN
         IF s.k = "v" /\ ~s.dev THEN R(VBool(TRUE)) ELSE (IF s.dev THEN D(s) ELSE s)
    [] r.op = "lit" -> NL!LitExpected(r.a.cp)
    [] r.op = "strlit" ->      \* a string / bytes literal evaluates to what its text denotes, or does not compile
         LET d == LT!Decode(r.a.cp) IN
         IF ~d.ok THEN E({"compile"})
         ELSE IF d.dev THEN D(R(VBytes(d.val)))
         ELSE R(IF d.bytes THEN VBytes(d.val) ELSE VStr(d.val))
    [] r.op = "toint" -> NL!ToIntFn(r.a)
    [] r.op = "touint" -> NL!ToUintFn(r.a)
    [] r.op = "todbl" -> NL!ToDoubleFn(r.a)
    [] r.op \in {"intrt", "uintrt", "strrt"} -> R(VBool(TRUE))                   \* inverse conversion after string() / bytes()
    [] r.op = "dblrt" -> IF DBX!IsNaN(r.a.b) THEN R(VBool(FALSE)) ELSE R(VBool(TRUE))
    [] r.op = "sizeadd" ->       \* size is additive over + (strings: pinned for ASCII text)
         LET sa == BF!Size(r.a) sb == BF!Size(r.b) IN
         IF sa.dev \/ sb.dev THEN D(R(VBool(TRUE))) ELSE R(VBool(TRUE))

\* host-side partial_cmp: Some(Less|Equal|Greater) or None
CmpMatches(r) ==
  LET c == Cmp(r.a, r.b) IN
  \/ (c \in {"lt", "eq", "gt"} /\ r.out.k = "cmp" /\ r.out.v = c)
  \/ (c \in {"un", "inc"} /\ r.out.k = "cmp" /\ r.out.v = "none")
  \/ (r.a.t \in {"null", "bytes"} /\ r.out.k = "cmp")                \* ordering of null / bytes is not pinned

\* string(timestamp): any RFC 3339 spelling that denotes the same instant at the same offset
TsStrMatches(r) == \/ ~TM!InRange(r.a.n)
                   \/ (r.out.k = "v" /\ r.out.v.t = "str" /\ TM!Denotes(r.out.v.cp, r.a))
\* numeric literals: ints/uints exactly, doubles correctly rounded, out-of-range is a compile error
LitMatches(r) ==
  LET x == NL!LitExpected(r.a.cp)
      f == NL!FloatTextVsDouble(r.a.cp, IF r.out.k = "v" /\ r.out.v.t = "dbl" THEN r.out.v.b ELSE << >>) IN
  IF x.dev THEN TRUE
  ELSE IF x.k = "e" THEN r.out.k = "compile_err"
  ELSE IF x.v.t # "dbl" THEN r.out.k = "v" /\ Same(x.v, r.out.v)
  ELSE IF f.overflow THEN r.out.k = "compile_err"
  ELSE r.out.k = "v" /\ r.out.v.t = "dbl" /\ f.matches
\* double(text)
StrDblMatches(r) ==
  LET f == NL!FloatTextVsDouble(r.a.cp, IF r.out.k = "v" /\ r.out.v.t = "dbl" THEN r.out.v.b ELSE << >>)
      p == NL!ParseDecimal(r.a.cp) IN
  IF f.ok THEN (f.overflow \/ (r.out.k = "v" /\ r.out.v.t = "dbl" /\ f.matches))
  ELSE IF p.ok THEN r.out.k = "v" /\ r.out.v.t = "dbl" /\ (p.plus \/ DBX!WithinUlp(p.n.m, 0, [i \in 1..4 |-> IF i = 1 THEN r.out.v.b[1] % 32768 ELSE r.out.v.b[i]]))
  ELSE TRUE                                                           \* other texts (inf, nan, ...): value or error
\* double(int / uint): the nearest double, or either neighbour
IntDblMatches(r) ==
  r.out.k = "v" /\ r.out.v.t = "dbl" /\ DBX!IsFinite(r.out.v.b) /\ (DBX!Neg(r.out.v.b) = (r.a.n.s < 0) \/ r.a.n.s = 0)
  /\ DBX!WithinUlp(r.a.n.m, 0, [i \in 1..4 |-> IF i = 1 THEN r.out.v.b[1] % 32768 ELSE r.out.v.b[i]])
Matches(r) ==
  IF r.op = "lit" /\ r.out.k \in {"v", "e", "compile_err"} THEN LitMatches(r)
  ELSE IF r.out.k \notin {"v", "e", "cmp", "compile_err"} THEN FALSE      \* panic / timeout
  ELSE IF r.op = "hcmp" THEN CmpMatches(r)
  ELSE IF r.op = "dblstr" THEN r.out.k = "v" /\ r.out.v.t = "str" /\ NL!DblTextDenotes(r.out.v.cp, r.a.b)
  ELSE IF r.op = "strdbl" THEN StrDblMatches(r)
  ELSE IF r.op = "todbl" /\ r.a.t \in {"int", "uint"} THEN IntDblMatches(r)
  ELSE IF r.op = "tsstr" THEN TsStrMatches(r)
  ELSE LET x == Expected(r) IN
       \/ x.dev
       \/ (x.k = "e" /\ "compile" \in x.cs /\ r.out.k = "compile_err")
       \/ (x.k = "v" /\ r.out.k = "v" /\ Same(x.v, r.out.v))
       \/ (x.k = "e" /\ r.out.k = "e" /\ r.out.c \in x.cs)
IsDev(r) == r.op \notin {"hcmp", "tsstr", "dblstr", "strdbl"} /\ Expected(r).dev

\* second pass for cases the faithful specification rejects: is the observed behaviour exactly one of the
\* known findings?  Returns the finding's id or "" (the check script decides whether that id is listed).
KnownFinding(r) ==
  IF r.op # "strlit" THEN ""
  ELSE LET k1 == LT!KF_1_DoubleQuoteKeepsBackslash(r.a.cp)
           k3 == LT!KF_3_RawTrailingBackslash(r.a.cp) IN
       IF k1.ok /\ r.out.k = "v" /\ r.out.v.t = "str" /\ r.out.v.cp = k1.val THEN "KF-1"
       ELSE IF LT!KF_2_RawTripleNul(r.a.cp) /\ r.out.k = "compile_err" THEN "KF-2"
       ELSE IF k3.ok /\ r.out.k = "v" /\ r.out.v.t = "str" /\ r.out.v.cp = k3.val THEN "KF-3"
       ELSE ""

Init == l = 1 /\ bad = << >> /\ ndev = 0 /\ kf = << >>
Next == /\ l <= Len(Rec)
        /\ l' = l + 1
        /\ LET r == Rec[l]
               ok == Matches(r)
               f == IF ok THEN "" ELSE KnownFinding(r) IN
           /\ bad' = IF ok \/ f # "" THEN bad ELSE Append(bad, r.id)
           /\ kf' = IF f # "" THEN Append(kf, << r.id, f >>) ELSE kf
           /\ ndev' = IF r.out.k \in {"v", "e"} /\ IsDev(r) THEN ndev + 1 ELSE ndev
Spec == Init /\ [][Next]_vars
Done == l = Len(Rec) + 1
Report == Done => PrintT(<< "RESULT", ToJson([cases |-> Len(Rec), bad |-> bad, dev |-> ndev, kf |-> kf]) >>)
=============================================================================
