SPECIFICATION Spec
CONSTANTS
  Symbols = {"cond", "or", "and", "eq", "lt", "in", "add", "sub", "mul", "rem", "not", "neg", "idx", "sel_a", "m1", "h2", "list2", "map1", "all", "mapf", "x", "i1"}
  MaxOps = 2
  MaxSyms = 7
  EmitVectors = TRUE
INVARIANTS FullParsesBack MinParsesBack Emit
CHECK_DEADLOCK FALSE
