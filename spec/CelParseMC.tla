------------------------------ MODULE CelParseMC ------------------------------
(***************************************************************************)
(* C04 inside the model: every surface tree the model builds (prefix       *)
(* symbols, bounded number of operators) is rendered fully and minimally   *)
(* parenthesised (CelRender); the grammar transcription (CelLex +          *)
(* CelGrammar) must parse both texts back to the same tree, macros         *)
(* expanded around -- never into -- their receiver and arguments.  Each    *)
(* complete tree is emitted as a vector for the implementation's parser.   *)
(***************************************************************************)
EXTENDS Naturals, Integers, Sequences, FiniteSets, TLC, Json, CelValue
CONSTANTS Symbols, MaxOps, MaxSyms, EmitVectors
AST == INSTANCE CelAst
RD == INSTANCE CelRender
GR == INSTANCE CelGrammar

VARIABLES syms, need, nops, done
vars == << syms, need, nops, done >>
Init == syms = << >> /\ need = 1 /\ nops = 0 /\ done = FALSE
BuildSymbol(s) ==
  /\ ~done /\ Len(syms) < MaxSyms
  /\ nops + (IF AST!IsOp(s) THEN 1 ELSE 0) <= MaxOps
  /\ need - 1 + AST!Arity(s) <= MaxSyms - Len(syms) - 1
  /\ syms' = Append(syms, s)
  /\ need' = need - 1 + AST!Arity(s)
  /\ nops' = nops + (IF AST!IsOp(s) THEN 1 ELSE 0)
  /\ done' = (need' = 0)
Next == \E s \in Symbols : BuildSymbol(s)
Spec == Init /\ [][Next]_vars

Surface == AST!ParsePrefix(syms).tree

\* comparison of a grammar tree (names as code points) with a CelAst tree (names as strings)
RECURSIVE SameGA(_, _)
SameGA(g, a) ==
  IF a.k = "macro" THEN SameGA(g, AST!ExpandOne(a.m, a.range, a.var, a.args))
  ELSE IF g.k # a.k THEN FALSE
  ELSE CASE g.k = "lit" -> Same(g.v, a.v)
         [] g.k = "id" -> g.ncp = (IF a.name = "@result" THEN << 64, 114, 101, 115, 117, 108, 116 >> ELSE RD!NameCp(a.name))
         [] g.k = "sel" -> g.fcp = a.fcp /\ g.test = a.test /\ SameGA(g.e, a.e)
         [] g.k = "list" -> Len(g.e) = Len(a.e) /\ \A i \in 1..Len(g.e) : SameGA(g.e[i], a.e[i])
         [] g.k = "map" -> Len(g.e) = Len(a.e) /\ \A i \in 1..Len(g.e) : SameGA(g.e[i][1], a.e[i][1]) /\ SameGA(g.e[i][2], a.e[i][2])
         [] g.k = "comp" -> /\ g.varcp = RD!NameCp(a.var)
                            /\ SameGA(g.range, a.range) /\ SameGA(g.init, a.init) /\ SameGA(g.cond, a.cond) /\ SameGA(g.step, a.step) /\ SameGA(g.res, a.res)
         [] g.k = "call" -> /\ (IF g.fn # "" THEN g.fn = a.fn ELSE g.fcp = RD!NameCp(a.fn))
                            /\ (g.tgt.k = "none") = (a.tgt.k = "none") /\ (g.tgt.k # "none" => SameGA(g.tgt, a.tgt))
                            /\ LET ga == IF g.fn \in {"_&&_", "_||_"} THEN GR!FlatArgs(g.fn, g.args) ELSE g.args
                                   aa == IF g.fn \in {"_&&_", "_||_"} THEN GR!FlatArgs(g.fn, a.args) ELSE a.args
                               IN  Len(ga) = Len(aa) /\ \A i \in 1..Len(ga) : SameGA(ga[i], aa[i])

ParsesBack(text) == LET p == GR!Parse(text) IN p.sentence /\ ~p.u /\ ~GR!IsBad(p.t) /\ SameGA(p.t, Surface)
\* the printer's precedence table and the grammar agree
FullParsesBack == done => ParsesBack(RD!Full(Surface))
MinParsesBack == done => ParsesBack(RD!Min(Surface))
Emit == (EmitVectors /\ done) => PrintT(<< "VEC", ToJson([full |-> RD!Full(Surface), min |-> RD!Min(Surface), syms |-> syms]) >>)
=============================================================================
