SPECIFICATION Spec
CONSTANTS
  Symbols = {"or", "and", "x"}
  MaxOps = 5
  MaxSyms = 11
  EmitVectors = TRUE
INVARIANTS FullParsesBack MinParsesBack Emit
CHECK_DEADLOCK FALSE
