SPECIFICATION Spec
CONSTANTS
  Symbols = {"cond", "or", "and", "eq", "add", "mul", "not", "neg", "idx", "sel_a", "m1", "all", "x", "i1"}
  MaxOps = 3
  MaxSyms = 8
  EmitVectors = TRUE
INVARIANTS FullParsesBack MinParsesBack Emit
CHECK_DEADLOCK FALSE
