---------------------------- MODULE CelParseTrace ----------------------------
(***************************************************************************)
(* Trace specification for the parser (C01, C04).  Records:                *)
(*  kind "vec": a tree built by the model (prefix symbols `syms`) with its *)
(*     fully and minimally parenthesised renderings, and what the          *)
(*     implementation's parser returned for each: both must be accepted    *)
(*     and return the model's tree (macros expanded around their receiver  *)
(*     and arguments; && / || chains compared flattened).                  *)
(*  other kinds: a source text (code points) and the parser's outcome:     *)
(*     ok + AST  => the text is a sentence of the grammar (CelGrammar),    *)
(*                  and, when the record carries the AST, it equals the    *)
(*                  tree the grammar transcription assigns to the text;    *)
(*     err       => at least one error, each rendering to non-empty text   *)
(*                  and positioned inside the source;                      *)
(*     a panic / disagreement between Parser::parse and Program::compile   *)
(*     is never accepted.                                                  *)
(***************************************************************************)
EXTENDS Naturals, Integers, Sequences, FiniteSets, TLC, TLCExt, Json, IOUtils, CelValue
AST == INSTANCE CelAst
GR == INSTANCE CelGrammar
BF == INSTANCE CelBuiltins

Rec == ndJsonDeserialize(IOEnv.TRACE)
VARIABLES l, bad, nsent
vars == << l, bad, nsent >>

\* comparison of a recorded tree (names as strings and code points) with a CelAst tree (names as strings)
RECURSIVE SameRA(_, _)
SameRA(r, a) ==
  IF a.k = "macro" THEN SameRA(r, AST!ExpandOne(a.m, a.range, a.var, a.args))
  ELSE IF r.k # a.k THEN FALSE
  ELSE CASE r.k = "lit" -> Same(a.v, r.v)
         [] r.k = "id" -> r.name = a.name
         [] r.k = "sel" -> r.fcp = a.fcp /\ r.test = a.test /\ SameRA(r.e, a.e)
         [] r.k = "list" -> Len(r.e) = Len(a.e) /\ \A i \in 1..Len(r.e) : SameRA(r.e[i], a.e[i])
         [] r.k = "map" -> Len(r.e) = Len(a.e) /\ \A i \in 1..Len(r.e) : SameRA(r.e[i][1], a.e[i][1]) /\ SameRA(r.e[i][2], a.e[i][2])
         [] r.k = "comp" -> /\ r.var = a.var /\ r.accu = a.accu
                            /\ SameRA(r.range, a.range) /\ SameRA(r.init, a.init) /\ SameRA(r.cond, a.cond) /\ SameRA(r.step, a.step) /\ SameRA(r.res, a.res)
         [] r.k = "call" -> /\ r.fn = a.fn
                            /\ (r.tgt.k = "none") = (a.tgt.k = "none") /\ (r.tgt.k # "none" => SameRA(r.tgt, a.tgt))
                            /\ LET ra == IF r.fn \in {"_&&_", "_||_"} THEN GR!FlatArgs(r.fn, r.args) ELSE r.args
                                   aa == IF r.fn \in {"_&&_", "_||_"} THEN GR!FlatArgs(r.fn, a.args) ELSE a.args
                               IN  Len(ra) = Len(aa) /\ \A i \in 1..Len(ra) : SameRA(ra[i], aa[i])
         [] OTHER -> FALSE

VecOK(r) ==
  LET t == AST!ParsePrefix(r.syms).tree IN
  /\ r.full.out.k = "ok" /\ SameRA(r.full.out.ast, t)
  /\ r.min.out.k = "ok" /\ SameRA(r.min.out.ast, t)

\* lines of a text: sequence of [chars, bytes] per line (split at \n)
RECURSIVE LinesFrom(_, _, _, _, _)
LinesFrom(cp, i, chars, bytes, acc) ==
  IF i > Len(cp) THEN Append(acc, << chars, bytes >>)
  ELSE IF cp[i] = 10 THEN LinesFrom(cp, i + 1, 0, 0, Append(acc, << chars, bytes >>))
  ELSE LinesFrom(cp, i + 1, chars + 1, bytes + BF!Utf8Len1(cp[i]), acc)
ErrOK(e, lines) ==
  /\ e.textlen > 0 /\ e.msglen > 0
  /\ \/ (e.line = 0 /\ e.col = 0)                               \* "no position"
     \/ /\ e.line >= 1 /\ e.line <= Len(lines)
        /\ e.col >= 0
        /\ e.col <= (IF lines[e.line][1] > lines[e.line][2] THEN lines[e.line][1] ELSE lines[e.line][2]) + 1   \* up to one past the end (EOF)

TextOK(r) ==
  CASE r.out.k = "ok" ->
         LET p == GR!Parse(r.text) IN
         /\ p.sentence                                           \* a non-sentence is never accepted
         /\ ("ast" \in DOMAIN r.out /\ ~p.u /\ ~GR!IsBad(p.t)) => GR!TreeSame(p.t, r.out.ast)
    [] r.out.k = "err" ->
         /\ Len(r.out.errors) >= 1 /\ r.out.displaylen > 0
         /\ LET lines == LinesFrom(r.text, 1, 0, 0, << >>) IN \A i \in 1..Len(r.out.errors) : ErrOK(r.out.errors[i], lines)
         \* C04: a sentence of the supported fragment with well-formed literals and macros must be accepted
         /\ (r.kind \in {"chain", "prefix", "random", "decorated"}) => LET p == GR!Parse(r.text) IN ~(p.sentence /\ ~p.u /\ ~GR!IsBad(p.t))
    [] OTHER -> FALSE

CaseOK(r) == IF r.kind = "vec" THEN VecOK(r) ELSE TextOK(r)
Init == l = 1 /\ bad = << >> /\ nsent = 0
Next == /\ l <= Len(Rec) /\ l' = l + 1
        /\ bad' = IF CaseOK(Rec[l]) THEN bad ELSE Append(bad, Rec[l].id)
        /\ nsent' = nsent
Spec == Init /\ [][Next]_vars
Report == (l = Len(Rec) + 1) => PrintT(<< "RESULT", ToJson([cases |-> Len(Rec), bad |-> bad, dev |-> 0]) >>)
=============================================================================
