---------------------------- MODULE CelParseTrace ----------------------------
(***************************************************************************)
(* Trace specification for the parser (C01, C04).  Records:                *)
(*  kind "vec": a tree built by the model (prefix symbols `syms`) with its *)
(*     fully and minimally parenthesised renderings, and what the          *)
(*     implementation's parser returned for each: both must be accepted    *)
(*     and return the model's tree (macros expanded around their receiver  *)
(*     and arguments; && / || chains compared flattened).                  *)
(*  other kinds: a source text (code points) and the parser's outcome:     *)
(*     ok + AST  => the text is a sentence of the grammar (CelGrammar),    *)
(*                  and, when the record carries the AST, it equals the    *)
(*                  tree the grammar transcription assigns to the text;    *)
(*     err       => at least one error, each rendering to non-empty text   *)
(*                  and positioned inside the source;                      *)
(*     a panic / disagreement between Parser::parse and Program::compile   *)
(*     is never accepted.                                                  *)
(***************************************************************************)
EXTENDS Naturals, Integers, Sequences, FiniteSets, TLC, TLCExt, Json, IOUtils, CelValue
AST == INSTANCE CelAst
GR == INSTANCE CelGrammar
BF == INSTANCE CelBuiltins

Rec == ndJsonDeserialize(IOEnv.TRACE)
VARIABLES l, bad, nsent
vars == << l, bad, nsent >>

\* comparison of a recorded tree (names as strings and code points) with a CelAst tree (names as strings)
\* strict: every application is compared as written (the fully parenthesised rendering leaves nothing to re-associate);
\* otherwise an && / || chain is compared by its operands in source order (the parser balances flat chains)
RECURSIVE SameRS(_, _, _)
SameRA(r, a) == SameRS(r, a, FALSE)
SameRS(r, a, strict) ==
  IF a.k = "macro" THEN SameRS(r, AST!ExpandOne(a.m, a.range, a.var, a.args), strict)
  ELSE IF r.k # a.k THEN FALSE
  ELSE CASE r.k = "lit" -> Same(a.v, r.v)
         [] r.k = "id" -> r.name = a.name
         [] r.k = "sel" -> r.fcp = a.fcp /\ r.test = a.test /\ SameRS(r.e, a.e, strict)
         [] r.k = "list" -> Len(r.e) = Len(a.e) /\ \A i \in 1..Len(r.e) : SameRS(r.e[i], a.e[i], strict)
         [] r.k = "map" -> Len(r.e) = Len(a.e) /\ \A i \in 1..Len(r.e) : SameRS(r.e[i][1], a.e[i][1], strict) /\ SameRS(r.e[i][2], a.e[i][2], strict)
         [] r.k = "comp" -> /\ r.var = a.var /\ r.accu = a.accu
                            /\ SameRS(r.range, a.range, strict) /\ SameRS(r.init, a.init, strict) /\ SameRS(r.cond, a.cond, strict) /\ SameRS(r.step, a.step, strict) /\ SameRS(r.res, a.res, strict)
         [] r.k = "call" -> /\ r.fn = a.fn
                            /\ (r.tgt.k = "none") = (a.tgt.k = "none") /\ (r.tgt.k # "none" => SameRS(r.tgt, a.tgt, strict))
                            /\ LET ra == IF ~strict /\ r.fn \in {"_&&_", "_||_"} THEN GR!FlatArgs(r.fn, r.args) ELSE r.args
                                   aa == IF ~strict /\ r.fn \in {"_&&_", "_||_"} THEN GR!FlatArgs(r.fn, a.args) ELSE a.args
                               IN  Len(ra) = Len(aa) /\ \A i \in 1..Len(ra) : SameRS(ra[i], aa[i], strict)
         [] OTHER -> FALSE

\* every node of a returned tree (macro expansions and map / struct entries included) carries a positive id of its own:
\* ids are what error positions and macro expansion refer to
IdsOK(o) == "ids" \in DOMAIN o => /\ \A i \in 1..Len(o.ids) : o.ids[i] > 0
                                  /\ Cardinality({ o.ids[i] : i \in 1..Len(o.ids) }) = Len(o.ids)
VecOK(r) ==
  LET t == AST!ParsePrefix(r.syms).tree IN
  /\ r.full.out.k = "ok" /\ SameRS(r.full.out.ast, t, TRUE) /\ IdsOK(r.full.out)
  /\ r.min.out.k = "ok" /\ SameRA(r.min.out.ast, t) /\ IdsOK(r.min.out)

\* lines of a text: sequence of [chars, bytes] per line (split at \n)
RECURSIVE LinesFrom(_, _, _, _, _)
LinesFrom(cp, i, chars, bytes, acc) ==
  IF i > Len(cp) THEN Append(acc, << chars, bytes >>)
  ELSE IF cp[i] = 10 THEN LinesFrom(cp, i + 1, 0, 0, Append(acc, << chars, bytes >>))
  ELSE LinesFrom(cp, i + 1, chars + 1, bytes + BF!Utf8Len1(cp[i]), acc)
\* The rendering of one error (growth beyond C01: the Display format):
\*   ERROR: <input>:LINE:COL: MSG            and, when the source has that line,
\*   | the line's text
\*   | ....^                                 (COL-1 dots, then the caret)
RECURSIVE DecCp(_)
DecCp(n) == IF n < 10 THEN << 48 + n >> ELSE DecCp(n \div 10) \o << 48 + (n % 10) >>
\* text of line L (1-based) as Rust's str::lines() yields it; << -1 >> if there is no such line
StripCr(t) == IF t # << >> /\ t[Len(t)] = 13 THEN SubSeq(t, 1, Len(t) - 1) ELSE t
RECURSIVE LineTextFrom(_, _, _, _, _)
LineTextFrom(cp, i, cur, want, acc) ==
  IF i > Len(cp) THEN (IF cur = want /\ acc # << >> THEN acc ELSE << -1 >>)       \* a final piece without a line feed is a line unless it is empty; only "\r\n" is stripped
  ELSE IF cp[i] = 10 THEN (IF cur = want THEN StripCr(acc) ELSE LineTextFrom(cp, i + 1, cur + 1, want, << >>))
  ELSE LineTextFrom(cp, i + 1, cur, want, IF cur = want THEN Append(acc, cp[i]) ELSE acc)
ErrTextOK(e, cp) ==
  ("textcp" \in DOMAIN e /\ e.line >= 0 /\ e.col >= 0) =>
    LET head == << 69, 82, 82, 79, 82, 58, 32, 60, 105, 110, 112, 117, 116, 62, 58 >> \o DecCp(e.line) \o << 58 >> \o DecCp(e.col) \o << 58, 32 >> \o e.msgcp
        lt == IF e.line >= 1 THEN LineTextFrom(cp, 1, 1, e.line, << >>) ELSE << -1 >>
        dots == [i \in 1..(IF e.col >= 1 THEN e.col - 1 ELSE 0) |-> 46]
    IN  IF lt = << -1 >> THEN e.textcp = head
        ELSE e.textcp = head \o << 10, 124, 32 >> \o lt \o << 10, 124, 32 >> \o dots \o << 94 >>
ErrOK(e, lines) ==
  /\ e.textlen > 0 /\ e.msglen > 0
  /\ \/ (e.line = 0 /\ e.col = 0)                               \* "no position"
     \/ /\ e.line >= 1 /\ e.line <= Len(lines)
        /\ e.col >= 0
        /\ e.col <= (IF lines[e.line][1] > lines[e.line][2] THEN lines[e.line][1] ELSE lines[e.line][2]) + 1   \* up to one past the end (EOF)

TextOK(r) ==
  CASE r.out.k = "ok" ->
         LET p == GR!Parse(r.text) IN
         /\ p.sentence                                           \* a non-sentence is never accepted
         /\ IdsOK(r.out)
         /\ ("ast" \in DOMAIN r.out /\ ~p.u /\ ~GR!IsBad(p.t)) => GR!TreeSame(p.t, r.out.ast)
    [] r.out.k = "err" ->
         /\ Len(r.out.errors) >= 1 /\ r.out.displaylen > 0
         /\ LET lines == LinesFrom(r.text, 1, 0, 0, << >>) IN \A i \in 1..Len(r.out.errors) : ErrOK(r.out.errors[i], lines) /\ ErrTextOK(r.out.errors[i], r.text)
         \* C04: a sentence of the supported fragment with well-formed literals and macros must be accepted
         /\ (r.kind \in {"chain", "prefix", "random", "decorated"}) => LET p == GR!Parse(r.text) IN ~(p.sentence /\ ~p.u /\ ~GR!IsBad(p.t))
    [] OTHER -> FALSE

CaseOK(r) == IF r.kind = "vec" THEN VecOK(r) ELSE TextOK(r)
Init == l = 1 /\ bad = << >> /\ nsent = 0
Next == /\ l <= Len(Rec) /\ l' = l + 1
        /\ bad' = IF CaseOK(Rec[l]) THEN bad ELSE Append(bad, Rec[l].id)
        /\ nsent' = nsent
Spec == Init /\ [][Next]_vars
Report == (l = Len(Rec) + 1) => PrintT(<< "RESULT", ToJson([cases |-> Len(Rec), bad |-> bad, dev |-> 0]) >>)
=============================================================================
