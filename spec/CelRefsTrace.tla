---------------------------- MODULE CelRefsTrace ----------------------------
(***************************************************************************)
(* C19.  Per program the harness records the reported references R (asked  *)
(* twice), the identifier tokens of the source text, and several runs      *)
(* against contexts that define random subsets of the names (one defines   *)
(* exactly R).  The specification states the two sides of the sandwich:    *)
(*  - lower: `looked`, the names the abstract machine hands to variable    *)
(*    lookup or function dispatch on that run, must be inside R;           *)
(*  - upper: every reported variable is an identifier of the source and no *)
(*    reported name is macro-internal;                                     *)
(* plus the observable clauses (1) an undeclared(name) outcome names a     *)
(* member of R, (2) a context defining all of R never yields undeclared,   *)
(* (4) the report does not change between calls.  Each run is also         *)
(* validated as an ordinary evaluation.                                    *)
(***************************************************************************)
EXTENDS Naturals, Integers, Sequences, FiniteSets, TLC, TLCExt, Json, IOUtils, CelEval
LOCAL ZO == INSTANCE CelZoo

Rec == ndJsonDeserialize(IOEnv.TRACE)
VARIABLES l, bad, ndev
vars == << l, bad, ndev >>
F0 == ZO!FullRegistry
SeqSet(s) == { s[i] : i \in 1..Len(s) }
NamesOf(xs) == { xs[i].name : i \in 1..Len(xs) }
OperatorNames == DOMAIN BinOps \cup UnOps \cup {"_?_:_", "_&&_", "_||_"}

FOf(run) == [n \in DOMAIN F0 \cup SeqSet(run.fns) |-> IF n \in SeqSet(run.fns) THEN ZO!H(<< ZO!P("args", "any") >>, "pack") ELSE F0[n]]
RootScope(vs) == [i \in 1..Len(vs) |-> << vs[i][1], vs[i][2] >>]

LogMatches(specLog, obsLog) ==
  /\ Len(specLog) = Len(obsLog)
  /\ \A i \in 1..Len(specLog) : specLog[i].f = obsLog[i].f /\ Len(specLog[i].a) = Len(obsLog[i].a)
        /\ \A j \in 1..Len(specLog[i].a) : Same(specLog[i].a[j], obsLog[i].a[j])
OutMatches(fin, out) ==
  IF fin.ctrl.m = "ret" THEN out.k = "v" /\ Same(fin.ctrl.v, out.v)
  ELSE out.k = "e" /\ out.c \in fin.ctrl.cs /\ (("undeclared" \in fin.ctrl.cs /\ out.c = "undeclared") => out.name = fin.ctrl.name)
Explains(fin, run) == run.out.k \in {"v", "e"} /\ (fin.dev \/ (LogMatches(fin.log, run.log) /\ OutMatches(fin, run.out)))

RunOK(r, run) ==
  LET Rv == NamesOf(r.refs.vars)
      Rf == NamesOf(r.refs.fns)
      Fx == FOf(run)
      fs == RunSet(InitCfg(r.ast, RootScope(run.vars)), Fx)
      defined == { run.vars[i][1] : i \in 1..Len(run.vars) }
      allDefined == Rv \subseteq defined /\ \A f \in Rf : f \in DOMAIN Fx \/ f \in OperatorNames
  IN
  /\ \E fin \in fs : Explains(fin, run)                                                        \* ordinary conformance
  /\ \A fin \in fs : \A lk \in fin.looked :                                                    \* looked \subseteq R
        IF lk[1] = "var" THEN (lk[2] = "@result" \/ lk[2] \in Rv) ELSE lk[2] \in Rf
  /\ (run.out.k = "e" /\ run.out.c = "undeclared") => run.out.name \in Rv \cup Rf              \* (1)
  /\ allDefined => ~(run.out.k = "e" /\ run.out.c = "undeclared")                              \* (2)

CaseOK(r) ==
  /\ NamesOf(r.refs.vars) \subseteq SeqSet(r.idents)                                           \* (3) reported variables occur in the source
  /\ \A i \in 1..Len(r.refs.vars) : r.refs.vars[i].cp # << >> /\ r.refs.vars[i].cp[1] # 64     \*     and are never macro-internal
  /\ r.refs = r.refs2                                                                          \* (4)
  /\ \A i \in 1..Len(r.runs) : RunOK(r, r.runs[i])

Init == l = 1 /\ bad = << >> /\ ndev = 0
Next == /\ l <= Len(Rec) /\ l' = l + 1
        /\ bad' = IF CaseOK(Rec[l]) THEN bad ELSE Append(bad, Rec[l].id)
        /\ UNCHANGED ndev
Spec == Init /\ [][Next]_vars
Report == (l = Len(Rec) + 1) => PrintT(<< "RESULT", ToJson([cases |-> Len(Rec), bad |-> bad, dev |-> 0]) >>)
=============================================================================
