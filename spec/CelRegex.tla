------------------------------- MODULE CelRegex -------------------------------
(***************************************************************************)
(* `s.matches(p)`: does the regular expression p match somewhere in s?     *)
(* (an unanchored search, RE2 / Rust-regex syntax).  The specification     *)
(* covers a conservative fragment of the syntax; a pattern outside it is   *)
(* "not pinned" (Parse(p).ok = FALSE) and the caller demands only a value  *)
(* or an error.                                                            *)
(*                                                                         *)
(*   alt    ::= concat ( '|' concat )*                                     *)
(*   concat ::= ( atom ( '*' | '+' | '?' )? )*        possibly empty       *)
(*   atom   ::= literal | '.' | '^' | '$' | '(' alt ')' | class            *)
(*   class  ::= '[' '^'? ( c | c '-' c )+ ']'         c an ASCII letter or digit *)
(*   literal: an ASCII letter or digit, space, '_', or any code point >= 128 *)
(*                                                                         *)
(* '.' is any code point but line feed; a negated class contains line feed;*)
(* '^' and '$' hold only at the very start / end of the text.              *)
(*                                                                         *)
(* Text and pattern are code-point sequences.  The matcher is the          *)
(* position-set semantics: Ends(node, S, t) = the positions where a match  *)
(* of node can end when it starts at a position of S; it has no notion of  *)
(* greedy or lazy, which a yes/no search does not need.                    *)
(***************************************************************************)
EXTENDS Naturals, Integers, Sequences, FiniteSets

IsAlnum(c) == (c >= 48 /\ c <= 57) \/ (c >= 65 /\ c <= 90) \/ (c >= 97 /\ c <= 122)
IsLiteral(c) == IsAlnum(c) \/ c = 32 \/ c = 95 \/ c >= 128
At(p, i) == IF i >= 1 /\ i <= Len(p) THEN p[i] ELSE -1

\* nodes (one record shape, so that they can live in any TLC collection)
N(k, c, kids, items, neg) == [k |-> k, c |-> c, kids |-> kids, items |-> items, neg |-> neg]
Lit(c)      == N("lit", c, << >>, << >>, FALSE)
AnyN        == N("any", 0, << >>, << >>, FALSE)
Bol         == N("bol", 0, << >>, << >>, FALSE)
Eol         == N("eol", 0, << >>, << >>, FALSE)
Cat(kids)   == N("cat", 0, kids, << >>, FALSE)
Alt(kids)   == N("alt", 0, kids, << >>, FALSE)
Rep(op, x)  == N(op, 0, << x >>, << >>, FALSE)            \* op in star plus opt
Class(items, neg) == N("class", 0, << >>, items, neg)
Bad == [ok |-> FALSE]

-----------------------------------------------------------------------------
\* class items starting at i (after '[' and an optional '^'): [ok, items, next (position after ']')]
RECURSIVE ClassItems(_, _, _)
ClassItems(p, i, acc) ==
  IF At(p, i) = 93 THEN (IF acc = << >> THEN Bad ELSE [ok |-> TRUE, items |-> acc, next |-> i + 1])
  ELSE IF ~IsAlnum(At(p, i)) THEN Bad
  ELSE IF At(p, i + 1) = 45 /\ IsAlnum(At(p, i + 2))
       THEN (IF p[i] <= p[i + 2] THEN ClassItems(p, i + 3, Append(acc, << p[i], p[i + 2] >>)) ELSE Bad)
  ELSE ClassItems(p, i + 1, Append(acc, << p[i], p[i] >>))

RECURSIVE ParseAlt(_, _, _)
RECURSIVE ParseCat(_, _, _, _)
\* one atom with its optional repetition: [ok, node, next]
ParseAtom(p, i, depth) ==
  LET c == At(p, i)
      base == IF IsLiteral(c) THEN [ok |-> TRUE, node |-> Lit(c), next |-> i + 1, rep |-> TRUE]
              ELSE IF c = 46 THEN [ok |-> TRUE, node |-> AnyN, next |-> i + 1, rep |-> TRUE]
              ELSE IF c = 94 THEN [ok |-> TRUE, node |-> Bol, next |-> i + 1, rep |-> FALSE]
              ELSE IF c = 36 THEN [ok |-> TRUE, node |-> Eol, next |-> i + 1, rep |-> FALSE]
              ELSE IF c = 40 THEN
                   (IF depth = 0 \/ At(p, i + 1) = 63 THEN Bad                         \* nesting bound; (?...) groups are outside the fragment
                    ELSE LET a == ParseAlt(p, i + 1, depth - 1) IN
                         IF a.ok /\ At(p, a.next) = 41 THEN [ok |-> TRUE, node |-> a.node, next |-> a.next + 1, rep |-> TRUE] ELSE Bad)
              ELSE IF c = 91 THEN
                   (LET neg == At(p, i + 1) = 94
                        ci == ClassItems(p, IF neg THEN i + 2 ELSE i + 1, << >>)
                    IN  IF ci.ok THEN [ok |-> TRUE, node |-> Class(ci.items, neg), next |-> ci.next, rep |-> TRUE] ELSE Bad)
              ELSE Bad
  IN  IF ~base.ok THEN Bad
      ELSE LET q == At(p, base.next) IN
           IF q \in {42, 43, 63} THEN
                (IF ~base.rep \/ At(p, base.next + 1) \in {42, 43, 63} THEN Bad          \* repeated anchors, stacked / lazy quantifiers: outside the fragment
                 ELSE [ok |-> TRUE, node |-> Rep(CASE q = 42 -> "star" [] q = 43 -> "plus" [] q = 63 -> "opt", base.node), next |-> base.next + 1])
           ELSE IF q = 123 THEN Bad                                                       \* counted repetition
           ELSE [ok |-> TRUE, node |-> base.node, next |-> base.next]

ParseCat(p, i, depth, acc) ==
  IF i > Len(p) \/ p[i] \in {124, 41} THEN [ok |-> TRUE, node |-> Cat(acc), next |-> i]
  ELSE LET a == ParseAtom(p, i, depth) IN
       IF a.ok THEN ParseCat(p, a.next, depth, Append(acc, a.node)) ELSE Bad

RECURSIVE ParseAlts(_, _, _, _)
ParseAlts(p, i, depth, acc) ==
  LET c == ParseCat(p, i, depth, << >>) IN
  IF ~c.ok THEN Bad
  ELSE IF At(p, c.next) = 124 THEN ParseAlts(p, c.next + 1, depth, Append(acc, c.node))
  ELSE [ok |-> TRUE, node |-> Alt(Append(acc, c.node)), next |-> c.next]
ParseAlt(p, i, depth) == ParseAlts(p, i, depth, << >>)

MaxGroupDepth == 4
\* [ok |-> TRUE, node] for a pattern of the fragment, [ok |-> FALSE] otherwise (not pinned)
Parse(p) == LET a == ParseAlt(p, 1, MaxGroupDepth) IN
            IF a.ok /\ a.next = Len(p) + 1 THEN [ok |-> TRUE, node |-> a.node] ELSE Bad

-----------------------------------------------------------------------------
InClass(c, node) == LET hit == \E j \in 1..Len(node.items) : c >= node.items[j][1] /\ c <= node.items[j][2]
                    IN  IF node.neg THEN ~hit ELSE hit

RECURSIVE Ends(_, _, _)
RECURSIVE EndsCat(_, _, _, _)
RECURSIVE Closure(_, _, _)
\* the positions (1 .. Len(t) + 1) at which a match of node may end, having started at a position of S
Ends(node, S, t) ==
  LET n == Len(t)
      step(ok(_)) == { q + 1 : q \in { q \in S : q <= n /\ ok(t[q]) } }
  IN
  CASE node.k = "lit"   -> LET ok(c) == c = node.c IN step(ok)
    [] node.k = "any"   -> LET ok(c) == c # 10 IN step(ok)
    [] node.k = "class" -> LET ok(c) == InClass(c, node) IN step(ok)
    [] node.k = "bol"   -> S \cap {1}
    [] node.k = "eol"   -> S \cap {n + 1}
    [] node.k = "cat"   -> EndsCat(node.kids, 1, S, t)
    [] node.k = "alt"   -> UNION { Ends(node.kids[j], S, t) : j \in 1..Len(node.kids) }
    [] node.k = "opt"   -> S \cup Ends(node.kids[1], S, t)
    [] node.k = "star"  -> Closure(node.kids[1], S, t)
    [] node.k = "plus"  -> Closure(node.kids[1], Ends(node.kids[1], S, t), t)
EndsCat(kids, j, S, t) == IF j > Len(kids) \/ S = {} THEN S ELSE EndsCat(kids, j + 1, Ends(kids[j], S, t), t)
Closure(x, S, t) == LET S2 == S \cup Ends(x, S, t) IN IF S2 = S THEN S ELSE Closure(x, S2, t)

\* the search: a match may start anywhere
IsMatch(node, t) == Ends(node, 1..(Len(t) + 1), t) # {}
=============================================================================
