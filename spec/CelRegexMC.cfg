SPECIFICATION Spec
CONSTANTS
  Tokens <- TokensDef
  MaxTokens = 5
  Letters = {97, 98}
  MaxWord = 3
INVARIANTS LangAgrees AnchorsAgree Outside
CHECK_DEADLOCK FALSE
