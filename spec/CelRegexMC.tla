------------------------------ MODULE CelRegexMC ------------------------------
(***************************************************************************)
(* Internal consistency of CelRegex: the position-set matcher agrees with  *)
(* an independent, denotational reading of the same syntax.  Patterns are  *)
(* all token strings up to MaxTokens over Tokens (grown one token at a     *)
(* time); texts are all words up to MaxWord over Letters.                  *)
(*   Lang(node, n)  = the words of length <= n in the language of node     *)
(*                    (anchor-free patterns)                               *)
(*   LangAgrees     : IsMatch(node, w)  <=>  some factor of w is in Lang   *)
(*   AnchorsAgree   : for ^x, x$ and ^x$ with x anchor-free: a prefix / a  *)
(*                    suffix / w itself is in Lang(x)                      *)
(***************************************************************************)
EXTENDS Naturals, Integers, Sequences, FiniteSets, TLC, CelRegex
CONSTANTS Tokens, MaxTokens, Letters, MaxWord

\* a b . * + ? | ( ) ^ $ [a] [^a]
TokensDef == { <<97>>, <<98>>, <<46>>, <<42>>, <<43>>, <<63>>, <<124>>, <<40>>, <<41>>, <<94>>, <<36>>, <<91, 97, 93>>, <<91, 94, 97, 93>> }
VARIABLE pat
vars == << pat >>
Init == pat = << >>
Next == \E tk \in Tokens : Len(pat) < MaxTokens /\ pat' = pat \o tk
Spec == Init /\ [][Next]_vars

Words == UNION { [1..n -> Letters] : n \in 0..MaxWord }
Sigma == Letters \cup {10}

RECURSIVE Lang(_, _)
RECURSIVE LangCat(_, _, _)
RECURSIVE Star(_, _, _)
CatSets(A, B, n) == { x \o y : x \in A, y \in B } \cap UNION { [1..k -> Sigma] : k \in 0..n }
Lang(node, n) ==
  CASE node.k = "lit"   -> IF n >= 1 THEN { << node.c >> } ELSE {}
    [] node.k = "any"   -> IF n >= 1 THEN { << c >> : c \in Sigma \ {10} } ELSE {}
    [] node.k = "class" -> IF n >= 1 THEN { << c >> : c \in { c \in Sigma : InClass(c, node) } } ELSE {}
    [] node.k = "cat"   -> LangCat(node.kids, 1, n)
    [] node.k = "alt"   -> UNION { Lang(node.kids[j], n) : j \in 1..Len(node.kids) }
    [] node.k = "opt"   -> { << >> } \cup Lang(node.kids[1], n)
    [] node.k = "star"  -> Star(Lang(node.kids[1], n), { << >> }, n)
    [] node.k = "plus"  -> CatSets(Lang(node.kids[1], n), Star(Lang(node.kids[1], n), { << >> }, n), n)
LangCat(kids, j, n) == IF j > Len(kids) THEN { << >> } ELSE CatSets(Lang(kids[j], n), LangCat(kids, j + 1, n), n)
Star(A, acc, n) == LET acc2 == acc \cup CatSets(acc, A, n) IN IF acc2 = acc THEN acc ELSE Star(A, acc2, n)

RECURSIVE HasAnchor(_)
HasAnchor(node) == node.k \in {"bol", "eol"} \/ \E j \in 1..Len(node.kids) : HasAnchor(node.kids[j])

Factors(w) == { SubSeq(w, i, j) : i \in 1..(Len(w) + 1), j \in 0..Len(w) }
Prefixes(w) == { SubSeq(w, 1, j) : j \in 0..Len(w) }
Suffixes(w) == { SubSeq(w, i, Len(w)) : i \in 1..(Len(w) + 1) }

LangAgrees ==
  LET p == Parse(pat) IN
  (p.ok /\ ~HasAnchor(p.node)) =>
     \A w \in Words : IsMatch(p.node, w) <=> (Factors(w) \cap Lang(p.node, Len(w)) # {})

\* ^x , x$ , ^x$ for an anchor-free concatenation x
AnchorsAgree ==
  LET p == Parse(pat) IN
  (p.ok /\ Len(p.node.kids) = 1 /\ p.node.kids[1].k = "cat" /\ Len(p.node.kids[1].kids) >= 1) =>
     LET ks == p.node.kids[1].kids
         n == Len(ks)
         b == ks[1].k = "bol"
         e == ks[n].k = "eol" /\ n >= (IF b THEN 2 ELSE 1)
         mid == Cat(SubSeq(ks, IF b THEN 2 ELSE 1, IF e THEN n - 1 ELSE n))
     IN  ((b \/ e) /\ ~HasAnchor(mid)) =>
            \A w \in Words :
               IsMatch(p.node, w) <=> ((CASE b /\ e -> {w} [] b -> Prefixes(w) [] OTHER -> Suffixes(w)) \cap Lang(mid, Len(w)) # {})

\* patterns outside the fragment are recognised as such, never mis-parsed: a few fixed points
Outside == /\ ~Parse(<< 42 >>).ok /\ ~Parse(<< 97, 42, 42 >>).ok /\ ~Parse(<< 40, 97 >>).ok /\ ~Parse(<< 97, 41 >>).ok
           /\ ~Parse(<< 91, 93 >>).ok /\ ~Parse(<< 92, 100 >>).ok /\ ~Parse(<< 97, 123, 50, 125 >>).ok /\ ~Parse(<< 94, 42 >>).ok
           /\ Parse(<< >>).ok /\ Parse(<< 97, 124 >>).ok /\ Parse(<< 40, 41 >>).ok
=============================================================================
