------------------------------ MODULE CelRender ------------------------------
(***************************************************************************)
(* Printing surface trees (CelAst) to source text as code points:          *)
(*   Full(t)  every operator application parenthesised                     *)
(*   Min(t)   parentheses only where CEL's precedence table requires them: *)
(*            ?: loosest and right-associative, then ||, &&, the relations,*)
(*            + -, * / % (left-associative), prefix ! and -, then member   *)
(*            access, indexing and calls.                                  *)
(* Names are ASCII; NameCp gives the code points of the names the models   *)
(* use.                                                                    *)
(***************************************************************************)
EXTENDS Naturals, Integers, Sequences, FiniteSets, CelValue
LOCAL AST == INSTANCE CelAst
LOCAL N == INSTANCE BigNat

NameCp(n) ==
  CASE n = "x" -> <<120>> [] n = "y" -> <<121>> [] n = "vi" -> <<118, 105>> [] n = "vl" -> <<118, 108>> [] n = "vm" -> <<118, 109>>
    [] n = "t" -> <<116>> [] n = "tb" -> <<116, 98>> [] n = "fail" -> <<102, 97, 105, 108>> [] n = "h1" -> <<104, 49>> [] n = "h2" -> <<104, 50>>
    [] n = "h3" -> <<104, 51>> [] n = "m0" -> <<109, 48>> [] n = "m1" -> <<109, 49>> [] n = "m2" -> <<109, 50>> [] n = "size" -> <<115, 105, 122, 101>>
    [] n = "int" -> <<105, 110, 116>> [] n = "undeclared_v" -> <<117, 110, 100, 101, 99, 108, 97, 114, 101, 100, 95, 118>>
    [] n = "all" -> <<97, 108, 108>> [] n = "exists" -> <<101, 120, 105, 115, 116, 115>> [] n = "exists_one" -> <<101, 120, 105, 115, 116, 115, 95, 111, 110, 101>>
    [] n = "map" -> <<109, 97, 112>> [] n = "filter" -> <<102, 105, 108, 116, 101, 114>> [] n = "a" -> <<97>> [] n = "k" -> <<107>>

Op(fn) == CASE fn = "_+_" -> <<43>> [] fn = "_-_" -> <<45>> [] fn = "_*_" -> <<42>> [] fn = "_/_" -> <<47>> [] fn = "_%_" -> <<37>>
            [] fn = "_==_" -> <<61, 61>> [] fn = "_!=_" -> <<33, 61>> [] fn = "_<_" -> <<60>> [] fn = "_<=_" -> <<60, 61>>
            [] fn = "_>_" -> <<62>> [] fn = "_>=_" -> <<62, 61>> [] fn = "@in" -> <<105, 110>> [] fn = "_&&_" -> <<38, 38>> [] fn = "_||_" -> <<124, 124>>
Level(fn) == CASE fn = "_?_:_" -> 1 [] fn = "_||_" -> 2 [] fn = "_&&_" -> 3
               [] fn \in {"_==_", "_!=_", "_<_", "_<=_", "_>_", "_>=_", "@in"} -> 4
               [] fn \in {"_+_", "_-_"} -> 5 [] fn \in {"_*_", "_/_", "_%_"} -> 6 [] fn \in {"!_", "-_"} -> 7 [] OTHER -> 8
IsNumLit(t) == t.k = "lit" /\ t.v.t \in {"int", "uint", "dbl"}
LevelOf(t) == IF t.k = "call" /\ t.tgt.k = "none" /\ t.fn \in {"_?_:_", "_||_", "_&&_", "_==_", "_!=_", "_<_", "_<=_", "_>_", "_>=_", "@in",
                                                                   "_+_", "_-_", "_*_", "_/_", "_%_", "!_", "-_"}
              THEN Level(t.fn) ELSE 8

\* does the text of a postfix-level tree begin with a numeric literal?  (then a preceding '-' would be taken for its sign)
RECURSIVE StartsWithNum(_)
StartsWithNum(t) ==
  CASE t.k = "lit" -> t.v.t \in {"int", "uint", "dbl"} /\ ~(t.v.t = "int" /\ t.v.n.s < 0)
    [] t.k = "sel" -> ~t.test /\ StartsWithNum(t.e)
    [] t.k = "macro" -> StartsWithNum(t.range)
    [] t.k = "call" -> IF t.tgt.k # "none" THEN StartsWithNum(t.tgt) ELSE (t.fn = "_[_]" /\ StartsWithNum(t.args[1]))
    [] OTHER -> FALSE
P(x) == <<40>> \o x \o <<41>>
SP == <<32>>
DigitsCp(n) == [i \in 1..Len(N!ToDigits(n.m)) |-> 48 + N!ToDigits(n.m)[i]]
LitCp(v) ==
  CASE v.t = "bool" -> IF v.v THEN <<116, 114, 117, 101>> ELSE <<102, 97, 108, 115, 101>>
    [] v.t = "null" -> <<110, 117, 108, 108>>
    [] v.t = "int" -> (IF v.n.s < 0 THEN <<45>> ELSE << >>) \o DigitsCp(v.n)
    [] v.t = "uint" -> DigitsCp(v.n) \o <<117>>
    [] v.t = "str" -> <<39>> \o v.cp \o <<39>>                  \* model strings contain no quote, backslash or line break

RECURSIVE Render(_, _)
RECURSIVE Commas(_, _, _)
Commas(ts, i, full) == IF i > Len(ts) THEN << >> ELSE (IF i > 1 THEN <<44, 32>> ELSE << >>) \o Render(ts[i], full) \o Commas(ts, i + 1, full)
\* operand of a construct that needs level >= need; in Full mode every operator application is parenthesised
Arg(t, need, full) ==
  LET r == Render(t, full) IN
  IF LevelOf(t) < 8 /\ (full \/ LevelOf(t) < need) THEN P(r) ELSE r
Render(t, full) ==
  CASE t.k = "lit" -> LitCp(t.v)
    [] t.k = "id" -> NameCp(t.name)
    [] t.k = "sel" -> IF t.test THEN <<104, 97, 115, 40>> \o Arg(t.e, 8, full) \o <<46>> \o t.fcp \o <<41>>
                      ELSE Arg(t.e, 8, full) \o <<46>> \o t.fcp
    [] t.k = "list" -> <<91>> \o Commas(t.e, 1, full) \o <<93>>
    [] t.k = "map" -> <<123>> \o (IF t.e = << >> THEN << >> ELSE Render(t.e[1][1], full) \o <<58, 32>> \o Render(t.e[1][2], full)) \o <<125>>
    [] t.k = "macro" -> Arg(t.range, 8, full) \o <<46>> \o NameCp(t.m) \o <<40>> \o NameCp(t.var) \o <<44, 32>> \o Commas(t.args, 1, full) \o <<41>>
    [] t.k = "call" ->
         IF t.tgt.k # "none" THEN Arg(t.tgt, 8, full) \o <<46>> \o NameCp(t.fn) \o <<40>> \o Commas(t.args, 1, full) \o <<41>>
         ELSE IF t.fn = "_?_:_" THEN Arg(t.args[1], 2, full) \o <<32, 63, 32>> \o Arg(t.args[2], 2, full) \o <<32, 58, 32>> \o Arg(t.args[3], 1, full)
         ELSE IF t.fn = "_[_]" THEN Arg(t.args[1], 8, full) \o <<91>> \o Render(t.args[2], full) \o <<93>>
         ELSE IF t.fn \in {"!_", "-_"} THEN
              (IF t.fn = "!_" THEN <<33>> ELSE <<45>>) \o
              (IF IsNumLit(t.args[1]) \/ (t.fn = "-_" /\ LevelOf(t.args[1]) = 8 /\ StartsWithNum(t.args[1]))
               THEN P(Render(t.args[1], full)) ELSE Arg(t.args[1], 8, full))       \* -(1) is not the literal -1, -(1.a) is not (-1).a
         ELSE IF Level(t.fn) < 8 THEN
              \* binary operators: left operand at the same level needs no parentheses (left-associative), the right one does
              Arg(t.args[1], Level(t.fn), full) \o SP \o Op(t.fn) \o SP \o Arg(t.args[2], Level(t.fn) + 1, full)
         ELSE NameCp(t.fn) \o <<40>> \o Commas(t.args, 1, full) \o <<41>>
Full(t) == Render(t, TRUE)
Min(t) == Render(t, FALSE)
=============================================================================
