SPECIFICATION Spec
CONSTANTS
  MaxToks = 4
  EmitVectors = TRUE
INVARIANTS ParenClosure NoDanglingOperator EmptyIsNoSentence Emit
CHECK_DEADLOCK FALSE
