---------------------------- MODULE CelSentenceMC ----------------------------
(***************************************************************************)
(* C01 inside the model: every string of at most MaxToks tokens over a     *)
(* token alphabet with one representative per grammar role is a state; the *)
(* recogniser (CelLex + CelGrammar) classifies it.  Invariants: wrapping a *)
(* text in parentheses does not change whether it is a sentence; a         *)
(* sentence never ends in an infix or prefix operator.  Every string is    *)
(* emitted for the implementation's parser.                                *)
(***************************************************************************)
EXTENDS Naturals, Integers, Sequences, FiniteSets, TLC, Json
CONSTANTS MaxToks, EmitVectors
GR == INSTANCE CelGrammar
\* token spellings (code points), each followed by a space when joined
Tok == [ n \in 1..16 |->
          CASE n = 1 -> <<97>> [] n = 2 -> <<49>> [] n = 3 -> <<39, 115, 39>> [] n = 4 -> <<40>> [] n = 5 -> <<41>> [] n = 6 -> <<91>> [] n = 7 -> <<93>>
            [] n = 8 -> <<123>> [] n = 9 -> <<125>> [] n = 10 -> <<46>> [] n = 11 -> <<44>> [] n = 12 -> <<63>> [] n = 13 -> <<58>> [] n = 14 -> <<43>>
            [] n = 15 -> <<45>> [] n = 16 -> <<33>> ]
Operators == {14, 15, 16, 12, 13, 10, 11}
VARIABLE toks
Init == toks = << >>
Next == Len(toks) < MaxToks /\ \E n \in 1..16 : toks' = Append(toks, n)
Spec == Init /\ [][Next]_toks
RECURSIVE Join(_, _)
Join(ts, i) == IF i > Len(ts) THEN << >> ELSE Tok[ts[i]] \o (IF i < Len(ts) THEN <<32>> ELSE << >>) \o Join(ts, i + 1)
Text == Join(toks, 1)
ParenClosure == GR!Sentence(Text) <=> GR!Sentence(<<40, 32>> \o Text \o <<32, 41>>)
NoDanglingOperator == (toks # << >> /\ toks[Len(toks)] \in {14, 15, 16, 12, 13, 10, 4, 6, 8}) => ~GR!Sentence(Text)
EmptyIsNoSentence == toks = << >> => ~GR!Sentence(Text)
Emit == EmitVectors => PrintT(<< "VEC", ToJson([text |-> Text, sentence |-> GR!Sentence(Text)]) >>)
=============================================================================
