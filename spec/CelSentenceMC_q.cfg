SPECIFICATION Spec
CONSTANTS
  MaxToks = 3
  EmitVectors = TRUE
INVARIANTS ParenClosure NoDanglingOperator EmptyIsNoSentence Emit
CHECK_DEADLOCK FALSE
