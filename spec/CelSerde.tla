------------------------------- MODULE CelSerde -------------------------------
(***************************************************************************)
(* The serde data model and its conversion to CEL values (C17).  A term is *)
(* a record [s |-> kind, ...]:                                             *)
(*   bool i8 i16 i32 i64 u8 u16 u32 u64 (n: BigInt)  f32 f64 (b: words of  *)
(*   the double it widens to)  char str (cp)  bytes (b)  none  some (x)    *)
(*   unit  unit_struct (name)  unit_variant (variant)                      *)
(*   newtype_struct (name, x)  newtype_variant (variant, x)                *)
(*   seq tuple tuple_struct (e)  tuple_variant (variant, e)                *)
(*   map (e: Seq of <<key term, value term>>)                              *)
(*   struct (name, f: Seq of <<field name cp, term>>)  struct_variant      *)
(*   mapbad (e): a map whose producer calls serialize_value before         *)
(*   serialize_key for its first entry                                     *)
(* ToValue(term) = [ok |-> TRUE, v] | [ok |-> FALSE]                       *)
(***************************************************************************)
EXTENDS Naturals, Integers, Sequences, FiniteSets, CelValue
LOCAL N  == INSTANCE BigNat
LOCAL Z  == INSTANCE BigInt
LOCAL NM == INSTANCE Num64
LOCAL TM == INSTANCE CelTime

Ok(v) == [ok |-> TRUE, v |-> v]
SerErr == [ok |-> FALSE]
Signed == {"i8", "i16", "i32", "i64"}
Unsigned == {"u8", "u16", "u32", "u64"}
DurationMarker == "$__cel_private_Duration"
TimestampMarker == "$__cel_private_Timestamp"

RECURSIVE ToKey(_)
ToKey(t) ==
  CASE t.s \in Signed -> Ok(VInt(t.n))
    [] t.s \in Unsigned -> Ok(VUint(t.n))
    [] t.s = "bool" -> Ok(VBool(t.v))
    [] t.s \in {"char", "str"} -> Ok(VStr(t.cp))
    [] t.s = "unit_variant" -> Ok(VStr(t.variant))
    [] t.s = "some" -> ToKey(t.x)
    [] t.s = "hr" -> ToKey(t.x)                      \* the conversion is a human-readable format, as serde_json is: the textual form
    [] t.s = "newtype_struct" -> ToKey(t.x)
    [] OTHER -> SerErr                               \* floats, bytes, none, unit, sequences, maps, structs, data-carrying variants

RECURSIVE ToValue(_)
RECURSIVE SeqToValues(_, _, _)
SeqToValues(es, i, acc) ==
  IF i > Len(es) THEN Ok(acc)
  ELSE LET x == ToValue(es[i]) IN IF x.ok THEN SeqToValues(es, i + 1, Append(acc, x.v)) ELSE SerErr
RECURSIVE EntriesToMap(_, _, _, _)
\* keyed: entries are <<key term, value term>>; otherwise <<field name cp, value term>>
EntriesToMap(es, i, acc, keyed) ==
  IF i > Len(es) THEN Ok(VMap(acc))
  ELSE LET k == IF keyed THEN ToKey(es[i][1]) ELSE Ok(VStr(es[i][1]))
       IN  IF ~k.ok THEN SerErr
           ELSE LET x == ToValue(es[i][2]) IN
                IF ~x.ok THEN SerErr ELSE EntriesToMap(es, i + 1, MapInsert(acc, k.v, x.v), keyed)
Single(variantCp, v) == VMap(<< << VStr(variantCp), v >> >>)

\* the Duration wrapper: marker newtype around struct Duration { secs: i64, nanos: i64 }
DurationOf(x) ==
  IF x.s = "struct" /\ x.name = "Duration" /\ Len(x.f) = 2
     /\ x.f[1][1] = <<115, 101, 99, 115>> /\ x.f[2][1] = <<110, 97, 110, 111, 115>>       \* "secs", "nanos"
     /\ x.f[1][2].s \in Signed /\ x.f[2][2].s \in Signed
  THEN LET ns == Z!Add(Z!Mul(x.f[1][2].n, Z!FromInt(1000000000)), x.f[2][2].n)
           wellFormed == Z!Lt(Z!Abs(x.f[2][2].n), Z!FromInt(1000000000)) /\ NM!InI64(ns)
       IN  [ok |-> TRUE, v |-> VDur(ns), dev |-> ~wellFormed]          \* out-of-range parts: an error or a host-range duration
  ELSE [ok |-> FALSE, dev |-> FALSE]

ToValue(t) ==
  CASE t.s = "bool" -> Ok(VBool(t.v))
    [] t.s \in Signed -> Ok(VInt(t.n))
    [] t.s \in Unsigned -> Ok(VUint(t.n))
    [] t.s \in {"f32", "f64"} -> Ok(VDbl(t.b))
    [] t.s \in {"char", "str"} -> Ok(VStr(t.cp))
    [] t.s = "bytes" -> Ok(VBytes(t.b))
    [] t.s \in {"none", "unit", "unit_struct"} -> Ok(VNull)
    [] t.s = "some" -> ToValue(t.x)
    [] t.s = "hr" -> ToValue(t.x)                    \* a type that asks is_human_readable(): the answer is that of serde_json (true), or the square would not commute
    [] t.s = "unit_variant" -> Ok(VStr(t.variant))
    [] t.s = "newtype_struct" ->
         IF t.name = DurationMarker THEN (LET d == DurationOf(t.x) IN IF d.ok THEN [ok |-> TRUE, v |-> d.v, dev |-> d.dev] ELSE SerErr)
         ELSE IF t.name = TimestampMarker THEN
              (IF t.x.s = "str" THEN (LET p == TM!ParseRfc3339(t.x.cp) IN IF p.ok THEN [ok |-> TRUE, v |-> VTs(p.n, p.off), dev |-> p.lax] ELSE [ok |-> FALSE, dev |-> TRUE])
               ELSE SerErr)
         ELSE ToValue(t.x)
    [] t.s = "newtype_variant" -> LET x == ToValue(t.x) IN IF x.ok THEN Ok(Single(t.variant, x.v)) ELSE SerErr
    [] t.s \in {"seq", "tuple", "tuple_struct"} -> LET x == SeqToValues(t.e, 1, << >>) IN IF x.ok THEN Ok(VList(x.v)) ELSE SerErr
    [] t.s = "tuple_variant" -> LET x == SeqToValues(t.e, 1, << >>) IN IF x.ok THEN Ok(Single(t.variant, VList(x.v))) ELSE SerErr
    [] t.s = "map" -> EntriesToMap(t.e, 1, << >>, TRUE)
    [] t.s = "mapbad" -> SerErr
    [] t.s = "struct" -> EntriesToMap(t.f, 1, << >>, FALSE)
    [] t.s = "struct_variant" -> LET x == EntriesToMap(t.f, 1, << >>, FALSE) IN IF x.ok THEN Ok(Single(t.variant, x.v)) ELSE SerErr

\* nested results may carry a dev flag only at the top; propagate conservatively: does the term mention a marker name anywhere?
RECURSIVE UsesMarker(_)
UsesMarker(t) ==
  CASE t.s = "newtype_struct" -> t.name \in {DurationMarker, TimestampMarker} \/ UsesMarker(t.x)
    [] t.s \in {"some", "newtype_variant", "hr"} -> UsesMarker(t.x)
    [] t.s \in {"seq", "tuple", "tuple_struct", "tuple_variant"} -> \E i \in 1..Len(t.e) : UsesMarker(t.e[i])
    [] t.s \in {"map", "mapbad"} -> \E i \in 1..Len(t.e) : UsesMarker(t.e[i][1]) \/ UsesMarker(t.e[i][2])
    [] t.s \in {"struct", "struct_variant"} -> \E i \in 1..Len(t.f) : UsesMarker(t.f[i][2])
    [] OTHER -> FALSE

\* data JSON can represent faithfully: no bytes (serde_json writes number arrays, CEL exports base64) and
\* no f32 (serde_json prints the shortest f32 text, CEL widens to f64)
RECURSIVE JsonRepresentable(_)
JsonRepresentable(t) ==
  CASE t.s \in {"bytes", "f32"} -> FALSE
    [] t.s \in {"some", "newtype_struct", "newtype_variant", "hr"} -> JsonRepresentable(t.x)
    [] t.s \in {"seq", "tuple", "tuple_struct", "tuple_variant"} -> \A i \in 1..Len(t.e) : JsonRepresentable(t.e[i])
    [] t.s \in {"map", "mapbad"} -> \A i \in 1..Len(t.e) : JsonRepresentable(t.e[i][1]) /\ JsonRepresentable(t.e[i][2])
    [] t.s \in {"struct", "struct_variant"} -> \A i \in 1..Len(t.f) : JsonRepresentable(t.f[i][2])
    [] OTHER -> TRUE
=============================================================================
