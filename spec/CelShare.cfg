SPECIFICATION Spec
CONSTANTS
  Threads = {"t1", "t2", "t3"}
  MaxOps = 3
  Dev_UncheckedInPlace = FALSE
  Dev_SharedScratch = FALSE
INVARIANTS RootImmutable NoDangling ResultIsSequential HeldValuesStable
CHECK_DEADLOCK FALSE
