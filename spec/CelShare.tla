------------------------------- MODULE CelShare -------------------------------
(***************************************************************************)
(* Sharing and copy-on-write.  Values are reference-counted buffers        *)
(* (Arc<Vec<_>> / Arc<String>); a root context holds some of them; threads *)
(* execute concurrently against the shared root, each with a stack of      *)
(* handles of its own.  Concatenation appends IN PLACE when the left        *)
(* operand's buffer is uniquely owned and copies otherwise (Arc::make_mut). *)
(* The uniqueness test and the mutation are separate steps so that TLC     *)
(* explores every interleaving in which they could be separated.           *)
(*                                                                         *)
(* Each thread chooses its operations freely (Load, Lit, Concat, Drop, up  *)
(* to MaxOps of them), so "every program of <= MaxOps heap operations" is  *)
(* covered.  A ghost stack of plain sequences computes what the thread     *)
(* would obtain running alone.                                             *)
(***************************************************************************)
EXTENDS Naturals, Sequences, FiniteSets, TLC
CONSTANTS Threads, MaxOps,
          Dev_UncheckedInPlace,     \* deviation: append in place without the uniqueness test
          Dev_SharedScratch         \* deviation: results are built in one scratch buffer owned by the root

VARIABLES heap,     \* buffer id -> [elems, rc]      (ids are 1..Len(heap))
          root,     \* name -> buffer id
          stack,    \* thread -> sequence of buffer ids (its handles)
          ghost,    \* thread -> sequence of element sequences (sequential meaning of its stack)
          pc,       \* thread -> "idle" | "checked" | "done"
          uniq,     \* thread -> result of the last uniqueness test
          nops,     \* thread -> operations used
          result    \* thread -> [done, got, want]
vars == << heap, root, stack, ghost, pc, uniq, nops, result >>

RootNames == {"a", "b"}
InitA == << 1, 2 >>
InitB == << 3 >>
Scratch == 3        \* buffer id of the scratch buffer used by Dev_SharedScratch

Init == /\ heap = << [elems |-> InitA, rc |-> 1], [elems |-> InitB, rc |-> 1], [elems |-> << >>, rc |-> 1] >>
        /\ root = [n \in RootNames |-> IF n = "a" THEN 1 ELSE 2]
        /\ stack = [t \in Threads |-> << >>]
        /\ ghost = [t \in Threads |-> << >>]
        /\ pc = [t \in Threads |-> "idle"]
        /\ uniq = [t \in Threads |-> FALSE]
        /\ nops = [t \in Threads |-> 0]
        /\ result = [t \in Threads |-> [done |-> FALSE, got |-> << >>, want |-> << >>]]

Budget(t) == pc[t] = "idle" /\ nops[t] < MaxOps
IncRc(h, b) == [h EXCEPT ![b].rc = @ + 1]
DecRc(h, b) == [h EXCEPT ![b].rc = @ - 1]
Push(s, x) == Append(s, x)
Top(s) == s[Len(s)]
Pop(s) == SubSeq(s, 1, Len(s) - 1)

\* Load: clone the root's handle of a context variable
Load(t, n) == /\ Budget(t)
              /\ heap' = IncRc(heap, root[n])
              /\ stack' = [stack EXCEPT ![t] = Push(@, root[n])]
              /\ ghost' = [ghost EXCEPT ![t] = Push(@, IF n = "a" THEN InitA ELSE InitB)]
              /\ nops' = [nops EXCEPT ![t] = @ + 1]
              /\ UNCHANGED << root, pc, uniq, result >>
\* Alloc: a literal evaluates to a fresh buffer
Lit(t) == /\ Budget(t)
          /\ heap' = Append(heap, [elems |-> << 9 >>, rc |-> 1])
          /\ stack' = [stack EXCEPT ![t] = Push(@, Len(heap) + 1)]
          /\ ghost' = [ghost EXCEPT ![t] = Push(@, << 9 >>)]
          /\ nops' = [nops EXCEPT ![t] = @ + 1]
          /\ UNCHANGED << root, pc, uniq, result >>
\* DropHandle
Drop(t) == /\ Budget(t) /\ Len(stack[t]) >= 1
           /\ heap' = DecRc(heap, Top(stack[t]))
           /\ stack' = [stack EXCEPT ![t] = Pop(@)]
           /\ ghost' = [ghost EXCEPT ![t] = Pop(@)]
           /\ nops' = [nops EXCEPT ![t] = @ + 1]
           /\ UNCHANGED << root, pc, uniq, result >>
\* ConcatCheck: read the reference count of the left operand's buffer
ConcatCheck(t) == /\ Budget(t) /\ Len(stack[t]) >= 2
                  /\ uniq' = [uniq EXCEPT ![t] = (heap[stack[t][Len(stack[t]) - 1]].rc = 1)]
                  /\ pc' = [pc EXCEPT ![t] = "checked"]
                  /\ nops' = [nops EXCEPT ![t] = @ + 1]
                  /\ UNCHANGED << heap, root, stack, ghost, result >>
\* ConcatInPlace / ConcatCopy: act on what the check saw
ConcatDo(t) ==
  /\ pc[t] = "checked"
  /\ LET n == Len(stack[t])
         l == stack[t][n - 1]
         r == stack[t][n]
         cat == heap[l].elems \o heap[r].elems
     IN
     IF Dev_SharedScratch THEN
          /\ heap' = DecRc(DecRc([heap EXCEPT ![Scratch].elems = cat, ![Scratch].rc = @ + 1], l), r)
          /\ stack' = [stack EXCEPT ![t] = Push(Pop(Pop(@)), Scratch)]
     ELSE IF uniq[t] \/ Dev_UncheckedInPlace THEN
          /\ heap' = DecRc([heap EXCEPT ![l].elems = cat], r)                       \* ConcatInPlace
          /\ stack' = [stack EXCEPT ![t] = Push(Pop(Pop(@)), l)]
     ELSE /\ heap' = Append(DecRc(DecRc(heap, l), r), [elems |-> cat, rc |-> 1])    \* ConcatCopy
          /\ stack' = [stack EXCEPT ![t] = Push(Pop(Pop(@)), Len(heap) + 1)]
  /\ ghost' = [ghost EXCEPT ![t] = LET n == Len(@) IN Push(Pop(Pop(@)), @[n - 1] \o @[n])]
  /\ pc' = [pc EXCEPT ![t] = "idle"]
  /\ UNCHANGED << root, uniq, nops, result >>
\* Finish: the value on top of the stack is the execution's result
Finish(t) == /\ pc[t] = "idle" /\ Len(stack[t]) >= 1
             /\ result' = [result EXCEPT ![t] = [done |-> TRUE, got |-> heap[Top(stack[t])].elems, want |-> Top(ghost[t])]]
             /\ pc' = [pc EXCEPT ![t] = "done"]
             /\ UNCHANGED << heap, root, stack, ghost, uniq, nops >>

Next == \E t \in Threads : \/ \E n \in RootNames : Load(t, n)
                           \/ Lit(t) \/ Drop(t) \/ ConcatCheck(t) \/ ConcatDo(t) \/ Finish(t)
Spec == Init /\ [][Next]_vars

-----------------------------------------------------------------------------
\* RootImmutable: no execution ever changes a buffer reachable from the root context
RootImmutable == heap[root["a"]].elems = InitA /\ heap[root["b"]].elems = InitB
\* NoDangling: a buffer's count is the number of handles to it (root + all stacks); never below one while referenced
Handles(b) == (IF \E n \in RootNames : root[n] = b THEN 1 ELSE 0) + (IF b = Scratch THEN 1 ELSE 0)
RECURSIVE CountIn(_, _, _)
CountIn(s, b, i) == IF i > Len(s) THEN 0 ELSE (IF s[i] = b THEN 1 ELSE 0) + CountIn(s, b, i + 1)
RECURSIVE SumThreads(_, _)
SumThreads(S, b) == IF S = {} THEN 0 ELSE LET t == CHOOSE x \in S : TRUE IN CountIn(stack[t], b, 1) + SumThreads(S \ {t}, b)
NoDangling == \A b \in 1..Len(heap) : heap[b].rc = Handles(b) + SumThreads(Threads, b)
\* ResultIsSequential: every execution yields what it would yield alone
ResultIsSequential == \A t \in Threads : result[t].done => result[t].got = result[t].want
\* what a thread holds always means what it would mean alone (results obtained earlier never change)
HeldValuesStable == \A t \in Threads : \A i \in 1..Len(stack[t]) :
                       pc[t] # "checked" => heap[stack[t][i]].elems = ghost[t][i]
=============================================================================
