SPECIFICATION Spec
CONSTANTS
  Threads = {"t1", "t2"}
  MaxOps = 3
  Dev_UncheckedInPlace = TRUE
  Dev_SharedScratch = FALSE
INVARIANTS RootImmutable NoDangling ResultIsSequential HeldValuesStable
CHECK_DEADLOCK FALSE
