SPECIFICATION Spec
CONSTANTS
  Threads = {"t1", "t2"}
  MaxOps = 3
  Dev_UncheckedInPlace = FALSE
  Dev_SharedScratch = TRUE
INVARIANTS RootImmutable NoDangling ResultIsSequential HeldValuesStable
CHECK_DEADLOCK FALSE
