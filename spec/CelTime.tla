------------------------------- MODULE CelTime -------------------------------
(***************************************************************************)
(* Timestamps: an instant is an exact count of nanoseconds since           *)
(* 1970-01-01T00:00:00Z (BigInt) together with the UTC offset (seconds) it *)
(* was given with.  The proleptic Gregorian calendar is defined here from  *)
(* first principles (days-from-civil / civil-from-days, all in native      *)
(* integers: |days| < 4 * 10^6 for years 1..9999); chrono is code under    *)
(* test, not an oracle.                                                    *)
(***************************************************************************)
EXTENDS Naturals, Integers, Sequences, FiniteSets, CelValue
LOCAL N  == INSTANCE BigNat
LOCAL Z  == INSTANCE BigInt
LOCAL NM == INSTANCE Num64

Accessors == {"getFullYear", "getMonth", "getDayOfYear", "getDayOfMonth", "getDate", "getDayOfWeek",
              "getHours", "getMinutes", "getSeconds", "getMilliseconds"}

\* floor division / modulo on native integers (TLC's \div and % already floor for positive divisors)
FDiv(a, b) == a \div b
FMod(a, b) == a % b

IsLeap(y) == (y % 4 = 0 /\ y % 100 # 0) \/ y % 400 = 0
DaysInMonth(y, m) == CASE m \in {1, 3, 5, 7, 8, 10, 12} -> 31
                       [] m \in {4, 6, 9, 11} -> 30
                       [] m = 2 -> IF IsLeap(y) THEN 29 ELSE 28

\* days since 1970-01-01 of the civil date y-m-d (era-based algorithm; March-based year)
DaysFromCivil(y, m, d) ==
  LET yy == IF m <= 2 THEN y - 1 ELSE y
      era == FDiv(yy, 400)
      yoe == yy - era * 400
      mp == IF m > 2 THEN m - 3 ELSE m + 9
      doy == (153 * mp + 2) \div 5 + d - 1
      doe == yoe * 365 + yoe \div 4 - yoe \div 100 + doy
  IN  era * 146097 + doe - 719468

\* the inverse
CivilFromDays(z0) ==
  LET z == z0 + 719468
      era == FDiv(z, 146097)
      doe == z - era * 146097
      yoe == (doe - doe \div 1460 + doe \div 36524 - doe \div 146096) \div 365
      y == yoe + era * 400
      doy == doe - (365 * yoe + yoe \div 4 - yoe \div 100)
      mp == (5 * doy + 2) \div 153
      d == doy - (153 * mp + 2) \div 5 + 1
      m == IF mp < 10 THEN mp + 3 ELSE mp - 9
  IN  [y |-> IF m <= 2 THEN y + 1 ELSE y, m |-> m, d |-> d]

\* 1970-01-01 was a Thursday; 0 = Sunday
Weekday(days) == FMod(days + 4, 7)
YearDay(y, m, d) == DaysFromCivil(y, m, d) - DaysFromCivil(y, 1, 1)      \* 0-based

NsPerSec == N!FromNat(1000000000)
NsPerDay == N!MulLimb(N!MulLimb(NsPerSec, 8640), 10)
\* floor division of a BigInt by a positive BigNat: <<quotient (BigInt), remainder (BigNat, >= 0)>>
FloorDivMod(n, b) ==
  LET dm == N!DivMod(n.m, b) IN
  IF n.s >= 0 THEN << Z!Z(1, dm[1]), dm[2] >>
  ELSE IF N!IsZero(dm[2]) THEN << Z!Z(-1, dm[1]), << >> >>
  ELSE << Z!Z(-1, N!Add(dm[1], << 1 >>)), N!Sub(b, dm[2]) >>

\* local broken-down time of an instant at an offset: [days, sod (second of day), ns (nanos of second)]
Local(n, off) ==
  LET loc == Z!Add(n, Z!Mul(Z!FromInt(off), Z!FromNatB(NsPerSec)))
      dd == FloorDivMod(loc, NsPerDay)
      ss == N!DivMod(dd[2], NsPerSec)
  IN  [days |-> Z!ToInt(dd[1]), sod |-> N!ToNat(ss[1]), ns |-> N!ToNat(ss[2])]

\* instants of years 1..9999 (UTC): the range in which the properties pin arithmetic down
MinInstant == Z!Mul(Z!FromInt(DaysFromCivil(1, 1, 1)), Z!FromNatB(NsPerDay))
MaxInstant == Z!Sub(Z!Mul(Z!FromInt(DaysFromCivil(9999, 12, 31) + 1), Z!FromNatB(NsPerDay)), Z!FromInt(1))
InRange(n) == Z!Le(MinInstant, n) /\ Z!Le(n, MaxInstant)

Accessor(name, v) ==
  IF v.t # "ts" THEN E({"type"})
  ELSE LET l == Local(v.n, v.off)
           c == CivilFromDays(l.days)
           ok == InRange(v.n)
           val == CASE name = "getFullYear"     -> c.y
                    [] name = "getMonth"        -> c.m - 1
                    [] name = "getDayOfMonth"   -> c.d - 1
                    [] name = "getDate"         -> c.d
                    [] name = "getDayOfYear"    -> YearDay(c.y, c.m, c.d)
                    [] name = "getDayOfWeek"    -> Weekday(l.days)
                    [] name = "getHours"        -> l.sod \div 3600
                    [] name = "getMinutes"      -> (l.sod % 3600) \div 60
                    [] name = "getSeconds"      -> l.sod % 60
                    [] name = "getMilliseconds" -> l.ns \div 1000000
       IN  IF ok THEN R(VIntN(val)) ELSE D(R(VIntN(val)))

-----------------------------------------------------------------------------
(* RFC 3339 *)
IsDigit(c) == c >= 48 /\ c <= 57
Num(cp, i, n) == LET RECURSIVE F(_, _) F(k, acc) == IF k = n THEN acc ELSE F(k + 1, acc * 10 + (cp[i + k] - 48)) IN F(0, 0)
AllDigitsAt(cp, i, n) == i + n - 1 <= Len(cp) /\ \A k \in 0..(n - 1) : IsDigit(cp[i + k])
RECURSIVE DigitRun(_, _)
DigitRun(cp, i) == IF i <= Len(cp) /\ IsDigit(cp[i]) THEN 1 + DigitRun(cp, i + 1) ELSE 0

\* [ok, n (instant), off, lax (TRUE when only a lenient reading accepts it)] | [ok |-> FALSE]
ParseRfc3339(cp) ==
  IF ~(Len(cp) >= 20 /\ AllDigitsAt(cp, 1, 4) /\ cp[5] = 45 /\ AllDigitsAt(cp, 6, 2) /\ cp[8] = 45 /\ AllDigitsAt(cp, 9, 2)
       /\ cp[11] \in {84, 116, 32} /\ AllDigitsAt(cp, 12, 2) /\ cp[14] = 58 /\ AllDigitsAt(cp, 15, 2) /\ cp[17] = 58 /\ AllDigitsAt(cp, 18, 2))
  THEN [ok |-> FALSE]
  ELSE LET y == Num(cp, 1, 4) mo == Num(cp, 6, 2) d == Num(cp, 9, 2)
           h == Num(cp, 12, 2) mi == Num(cp, 15, 2) s == Num(cp, 18, 2)
           hasFrac == cp[20] = 46
           nf == IF hasFrac THEN DigitRun(cp, 21) ELSE 0
           j == 20 + (IF hasFrac THEN 1 + nf ELSE 0)              \* position of the zone
           fracNs == IF nf = 0 THEN 0 ELSE LET k == IF nf > 9 THEN 9 ELSE nf IN Num(cp, 21, k) * (10 ^ (9 - k))
           zoneZ == j = Len(cp) /\ cp[j] \in {90, 122}
           zoneN == j + 5 = Len(cp) /\ cp[j] \in {43, 45} /\ AllDigitsAt(cp, j + 1, 2) /\ cp[j + 3] = 58 /\ AllDigitsAt(cp, j + 4, 2)
           oh == IF zoneN THEN Num(cp, j + 1, 2) ELSE 0
           om == IF zoneN THEN Num(cp, j + 4, 2) ELSE 0
           off == IF zoneN THEN (IF cp[j] = 45 THEN -1 ELSE 1) * (oh * 3600 + om * 60) ELSE 0
           valid == /\ (hasFrac => nf >= 1) /\ (zoneZ \/ zoneN)
                    /\ mo \in 1..12 /\ d >= 1 /\ d <= DaysInMonth(y, mo)
                    /\ h <= 23 /\ mi <= 59 /\ s <= 60 /\ oh <= 23 /\ om <= 59
       IN  IF ~valid THEN [ok |-> FALSE]
           ELSE LET days == DaysFromCivil(y, mo, d)
                    secs == Z!Add(Z!Mul(Z!FromInt(days), Z!FromInt(86400)), Z!FromInt(h * 3600 + mi * 60 + s - off))
                    n == Z!Add(Z!Mul(secs, Z!FromNatB(NsPerSec)), Z!FromInt(fracNs))
                IN  [ok |-> TRUE, n |-> n, off |-> off,
                     lax |-> cp[11] # 84 \/ (zoneZ /\ cp[j] = 122) \/ s = 60 \/ y = 0 \/ nf > 9 \/ (zoneN /\ cp[j] = 45 /\ oh = 0 /\ om = 0)]

TimestampFn(v) ==
  IF v.t # "str" THEN E({"type", "fnerr"})
  ELSE LET p == ParseRfc3339(v.cp) IN
       IF ~p.ok THEN E({"fnerr", "type", "overflow"})
       ELSE IF p.lax THEN D(R(VTs(p.n, p.off))) ELSE R(VTs(p.n, p.off))

\* does the text denote exactly this instant and offset?  (used for string(timestamp): the rendering
\* is any RFC 3339 spelling of the same instant at the same offset)
Denotes(cp, v) == LET p == ParseRfc3339(cp) IN p.ok /\ p.n = v.n /\ p.off = v.off

\* timestamp +/- duration, timestamp - timestamp on exact nanoseconds
PlusDur(t, d, sign) ==
  LET n == IF sign = 1 THEN Z!Add(t.n, d.n) ELSE Z!Sub(t.n, d.n) IN
  IF InRange(t.n) /\ InRange(n) /\ NM!InI64(d.n) THEN R(VTs(n, t.off))
  ELSE D(E({"overflow", "type", "fnerr"}))           \* outside years 1..9999: an error, or a wider host range
Diff(a, b) ==
  LET n == Z!Sub(a.n, b.n) IN
  IF NM!InI64(n) THEN R(VDur(n)) ELSE D(E({"overflow", "type", "fnerr"}))
=============================================================================
