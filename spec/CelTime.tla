------------------------------- MODULE CelTime -------------------------------
EXTENDS Naturals, Integers, Sequences, FiniteSets, CelValue
LOCAL Z  == INSTANCE BigInt
Accessors == {"getFullYear", "getMonth", "getDayOfYear", "getDayOfMonth", "getDate", "getDayOfWeek",
              "getHours", "getMinutes", "getSeconds", "getMilliseconds"}
\* placeholders until the calendar is specified (C16): outcome not pinned
TimestampFn(v) == D(R(VTs(Z!Zero, 0)))
Accessor(name, v) == D(R(VIntN(0)))
=============================================================================
