SPECIFICATION Spec
CONSTANTS
  LoNeg = 171000
  Hi = 194000
INVARIANTS ValidDate RoundTrip Successor WeekdayAdvances YearDayOK Anchors
CHECK_DEADLOCK FALSE
