SPECIFICATION Spec
CONSTANTS
  LoNeg = 719162
  Hi = 2932896
INVARIANTS ValidDate RoundTrip Successor WeekdayAdvances YearDayOK Anchors
CHECK_DEADLOCK FALSE
