------------------------------ MODULE CelTimeMC ------------------------------
(* The calendar of CelTime checked day by day: every day number in [Lo, Hi] is a state. *)
EXTENDS Naturals, Integers, Sequences, TLC, CelValue
TM == INSTANCE CelTime
LOCAL Z == INSTANCE BigInt
CONSTANTS LoNeg, Hi
Lo == -LoNeg
VARIABLE d
Init == d \in Lo..Hi
Next == UNCHANGED d
Spec == Init /\ [][Next]_d

C == TM!CivilFromDays(d)
ValidDate == C.m \in 1..12 /\ C.d >= 1 /\ C.d <= TM!DaysInMonth(C.y, C.m)
RoundTrip == TM!DaysFromCivil(C.y, C.m, C.d) = d
\* the next day number is the next civil date (so DaysFromCivil is strictly monotone and onto)
Successor == LET n == TM!CivilFromDays(d + 1) IN
             IF C.d < TM!DaysInMonth(C.y, C.m) THEN n = [y |-> C.y, m |-> C.m, d |-> C.d + 1]
             ELSE IF C.m < 12 THEN n = [y |-> C.y, m |-> C.m + 1, d |-> 1]
             ELSE n = [y |-> C.y + 1, m |-> 1, d |-> 1]
WeekdayAdvances == TM!Weekday(d + 1) = (TM!Weekday(d) + 1) % 7 /\ TM!Weekday(d) \in 0..6
YearDayOK == LET yd == TM!YearDay(C.y, C.m, C.d) IN
             /\ (C.m = 1 /\ C.d = 1) => yd = 0
             /\ (C.m = 12 /\ C.d = 31) => yd = (IF TM!IsLeap(C.y) THEN 365 ELSE 364)
             /\ yd >= 0 /\ yd <= 365
\* anchors: 1970-01-01 is day 0, a Thursday; 2000-01-01 a Saturday; 2024-02-29 exists and is a Thursday; 0001-01-01 a Monday
Anchors == /\ TM!DaysFromCivil(1970, 1, 1) = 0 /\ TM!Weekday(0) = 4
           /\ TM!Weekday(TM!DaysFromCivil(2000, 1, 1)) = 6
           /\ TM!Weekday(TM!DaysFromCivil(2024, 2, 29)) = 4 /\ TM!CivilFromDays(TM!DaysFromCivil(2024, 2, 29)) = [y |-> 2024, m |-> 2, d |-> 29]
           /\ TM!Weekday(TM!DaysFromCivil(1, 1, 1)) = 1
           /\ TM!DaysFromCivil(2038, 1, 19) = 24855
\* the local broken-down time of midnight of day d at offset 0 is (d, 0, 0), and one nanosecond earlier is the last nanosecond of d-1
LocalOK == LET n == Z!Mul(Z!FromInt(d), Z!FromNatB(TM!NsPerDay)) IN
           /\ TM!Local(n, 0) = [days |-> d, sod |-> 0, ns |-> 0]
           /\ TM!Local(Z!Sub(n, Z!FromInt(1)), 0) = [days |-> d - 1, sod |-> 86399, ns |-> 999999999]
           /\ TM!Local(n, -3600) = [days |-> d - 1, sod |-> 82800, ns |-> 0]
=============================================================================
