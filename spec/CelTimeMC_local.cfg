SPECIFICATION Spec
CONSTANTS
  LoNeg = 200
  Hi = 200
INVARIANTS LocalOK
CHECK_DEADLOCK FALSE
