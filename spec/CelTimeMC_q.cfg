SPECIFICATION Spec
CONSTANTS
  LoNeg = 20000
  Hi = 30000
INVARIANTS ValidDate RoundTrip Successor WeekdayAdvances YearDayOK Anchors
CHECK_DEADLOCK FALSE
