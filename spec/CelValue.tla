------------------------------ MODULE CelValue ------------------------------
(***************************************************************************)
(* The CEL value universe and the value-level reference semantics:         *)
(* truthiness, equality, ordering, arithmetic, indexing, membership, map   *)
(* keys.  Every value is a tagged record (TLC cannot compare values of     *)
(* different TLA+ types), always inspected tag first.                      *)
(*                                                                         *)
(*   [t |-> "int",  n |-> BigInt]          [t |-> "uint", n |-> BigInt]    *)
(*   [t |-> "dbl",  b |-> <<w3,w2,w1,w0>>] (raw IEEE bits; <<>> = unknown) *)
(*   [t |-> "str",  cp |-> Seq(code point)] [t |-> "bytes", b |-> Seq(0..255)] *)
(*   [t |-> "bool", v |-> BOOLEAN]         [t |-> "null"]                  *)
(*   [t |-> "list", e |-> Seq(Value)]                                      *)
(*   [t |-> "map",  e |-> Seq(<<key, value>>), ord |-> BOOLEAN]            *)
(*        e is ONE iteration order; ord = TRUE iff it is known to be the   *)
(*        order the implementation's instance iterates in                  *)
(*   [t |-> "dur",  n |-> BigInt nanoseconds]                              *)
(*   [t |-> "ts",   n |-> BigInt ns since epoch (the instant), off |-> offset seconds] *)
(*   [t |-> "fn",   name |-> STRING]                                       *)
(*                                                                         *)
(* Results of operations:  R(v) a value, E(cs) an error whose class may be *)
(* any member of cs.  The field dev = TRUE marks a result obtained by a    *)
(* rule the properties do not pin down (a documented deviation of the      *)
(* implementation from standard CEL, or an ill-typed use); conformance     *)
(* checking then only demands "a value or an error, never a panic".        *)
(***************************************************************************)
EXTENDS Naturals, Integers, Sequences, FiniteSets
LOCAL N  == INSTANCE BigNat
LOCAL Z  == INSTANCE BigInt
LOCAL NM == INSTANCE Num64
LOCAL DB == INSTANCE Dbl

VInt(n)   == [t |-> "int", n |-> n]
VUint(n)  == [t |-> "uint", n |-> n]
VDbl(b)   == [t |-> "dbl", b |-> b]
VStr(cp)  == [t |-> "str", cp |-> cp]
VBytes(b) == [t |-> "bytes", b |-> b]
VBool(v)  == [t |-> "bool", v |-> v]
VNull     == [t |-> "null"]
VList(e)  == [t |-> "list", e |-> e]
VMap(e)   == [t |-> "map", e |-> e, ord |-> FALSE]
VDur(n)   == [t |-> "dur", n |-> n]
VTs(n, o) == [t |-> "ts", n |-> n, off |-> o]
VFn(name) == [t |-> "fn", name |-> name]
VIntN(k)  == VInt(Z!FromInt(k))
VUintN(k) == VUint(Z!FromInt(k))
AnyDbl    == VDbl(<< >>)        \* a double the specification does not determine

R(v)  == [k |-> "v", v |-> v, dev |-> FALSE]
E(cs) == [k |-> "e", cs |-> cs, dev |-> FALSE]
D(r)  == [r EXCEPT !.dev = TRUE]
IsR(r) == r.k = "v"

\* error-class families.  "type" lumps together every way of saying "no such overload".
TypeErr  == {"type"}

IsNum(v) == v.t \in {"int", "uint", "dbl"}
IsKeyKind(v) == v.t \in {"int", "uint", "bool", "str"}
KnownDbl(v) == v.t = "dbl" /\ v.b # << >>

-----------------------------------------------------------------------------
(* Ordering and equality *)

\* code point / byte sequences, lexicographic
RECURSIVE SeqCmp(_, _, _)
SeqCmp(x, y, i) ==
  IF i > Len(x) /\ i > Len(y) THEN "eq"
  ELSE IF i > Len(x) THEN "lt"
  ELSE IF i > Len(y) THEN "gt"
  ELSE IF x[i] < y[i] THEN "lt"
  ELSE IF x[i] > y[i] THEN "gt"
  ELSE SeqCmp(x, y, i + 1)

\* numeric comparison by the numbers denoted: "lt" "eq" "gt" "un"
NumCmp(a, b) ==
  IF (a.t = "dbl" /\ a.b = << >>) \/ (b.t = "dbl" /\ b.b = << >>) THEN "un"      \* undetermined double (dev is already set)
  ELSE IF a.t = "dbl" /\ b.t = "dbl" THEN DB!CmpDD(a.b, b.b)
  ELSE IF a.t = "dbl" THEN DB!Flip(DB!CmpID(b.n, a.b))
  ELSE IF b.t = "dbl" THEN DB!CmpID(a.n, b.b)
  ELSE DB!OfInt(Z!Cmp(a.n, b.n))

\* Cmp: "lt" "eq" "gt" | "un" (NaN involved) | "inc" (not orderable)
Cmp(a, b) ==
  IF IsNum(a) /\ IsNum(b) THEN NumCmp(a, b)
  ELSE IF a.t # b.t THEN "inc"
  ELSE CASE a.t = "str"   -> SeqCmp(a.cp, b.cp, 1)
         [] a.t = "bytes" -> SeqCmp(a.b, b.b, 1)
         [] a.t = "bool"  -> IF a.v = b.v THEN "eq" ELSE IF b.v THEN "lt" ELSE "gt"
         [] a.t = "dur"   -> DB!OfInt(Z!Cmp(a.n, b.n))
         [] a.t = "ts"    -> DB!OfInt(Z!Cmp(a.n, b.n))
         [] a.t = "null"  -> "eq"
         [] OTHER         -> "inc"

\* key identity inside one map (exact kind + value)
SameKeyExact(k1, k2) ==
  /\ k1.t = k2.t
  /\ CASE k1.t = "int" -> k1.n = k2.n [] k1.t = "uint" -> k1.n = k2.n
       [] k1.t = "bool" -> k1.v = k2.v [] k1.t = "str" -> k1.cp = k2.cp [] OTHER -> FALSE
\* key identity for lookups: numerically equal int and uint keys are the same key
SameKey(k1, k2) ==
  IF k1.t \in {"int", "uint"} /\ k2.t \in {"int", "uint"} THEN k1.n = k2.n
  ELSE SameKeyExact(k1, k2)

RECURSIVE Eq(_, _)
Eq(a, b) ==
  IF IsNum(a) /\ IsNum(b) THEN NumCmp(a, b) = "eq"
  ELSE IF a.t # b.t THEN FALSE
  ELSE CASE a.t = "str"   -> a.cp = b.cp
         [] a.t = "bytes" -> a.b = b.b
         [] a.t = "bool"  -> a.v = b.v
         [] a.t = "null"  -> TRUE
         [] a.t = "dur"   -> a.n = b.n
         [] a.t = "ts"    -> a.n = b.n
         [] a.t = "fn"    -> a.name = b.name
         [] a.t = "list"  -> /\ Len(a.e) = Len(b.e)
                             /\ \A i \in 1..Len(a.e) : Eq(a.e[i], b.e[i])
         [] a.t = "map"   -> /\ Len(a.e) = Len(b.e)
                             /\ \A i \in 1..Len(a.e) : \E j \in 1..Len(b.e) :
                                   SameKeyExact(a.e[i][1], b.e[j][1]) /\ Eq(a.e[i][2], b.e[j][2])

\* does a value (recursively) contain a map in which an int key has a numerically equal uint
\* sibling, or two maps whose equality hinges on int-vs-uint keys?  Equality of such maps is
\* not fixed by the properties (envelope).
RECURSIVE HasNumKeyMap(_)
HasNumKeyMap(v) ==
  CASE v.t = "list" -> \E i \in 1..Len(v.e) : HasNumKeyMap(v.e[i])
    [] v.t = "map"  -> \E i \in 1..Len(v.e) : v.e[i][1].t \in {"int", "uint"} \/ HasNumKeyMap(v.e[i][2])
    [] OTHER -> FALSE

\* structural identity used when comparing an observed value with the predicted one:
\* NaN matches NaN, unknown doubles match any double, maps are compared as sets of entries.
RECURSIVE Same(_, _)
Same(a, b) ==
  IF a.t # b.t THEN FALSE
  ELSE CASE a.t = "dbl" -> \/ a.b = << >> \/ b.b = << >>
                           \/ (DB!IsNaN(a.b) /\ DB!IsNaN(b.b))
                           \/ a.b = b.b
         [] a.t = "list" -> Len(a.e) = Len(b.e) /\ \A i \in 1..Len(a.e) : Same(a.e[i], b.e[i])
         [] a.t = "map"  -> /\ Len(a.e) = Len(b.e)
                            /\ \A i \in 1..Len(a.e) : \E j \in 1..Len(b.e) :
                                  Same(a.e[i][1], b.e[j][1]) /\ Same(a.e[i][2], b.e[j][2])
         [] a.t = "int"  -> a.n = b.n
         [] a.t = "uint" -> a.n = b.n
         [] a.t = "str"  -> a.cp = b.cp
         [] a.t = "bytes" -> a.b = b.b
         [] a.t = "bool" -> a.v = b.v
         [] a.t = "null" -> TRUE
         [] a.t = "dur"  -> a.n = b.n
         [] a.t = "ts"   -> a.n = b.n /\ a.off = b.off
         [] a.t = "fn"   -> a.name = b.name

-----------------------------------------------------------------------------
(* Truthiness.  Bool operands are the typed fragment; everything else is the
   implementation's documented coercion (Dev_Truthiness). *)
Dev_Truthiness(v) ==
  CASE v.t = "bool"  -> v.v
    [] v.t = "list"  -> v.e # << >>
    [] v.t = "map"   -> v.e # << >>
    [] v.t = "int"   -> v.n.s # 0
    [] v.t = "uint"  -> v.n.s # 0
    [] v.t = "dbl"   -> IF v.b = << >> THEN TRUE ELSE ~DB!IsZero(v.b)
    [] v.t = "str"   -> v.cp # << >>
    [] v.t = "bytes" -> v.b # << >>
    [] v.t = "null"  -> FALSE
    [] v.t = "dur"   -> v.n.s # 0
    [] v.t = "ts"    -> v.n.s > 0
    [] v.t = "fn"    -> FALSE
IsBool(v) == v.t = "bool"

-----------------------------------------------------------------------------
(* Maps *)
RECURSIVE FindKeyFrom(_, _, _, _)
\* index of the entry whose key matches k under same(_,_), 0 if none
FindKeyFrom(es, k, i, exact) ==
  IF i > Len(es) THEN 0
  ELSE IF (IF exact THEN SameKeyExact(es[i][1], k) ELSE SameKey(es[i][1], k)) THEN i
  ELSE FindKeyFrom(es, k, i + 1, exact)
FindKey(m, k)      == FindKeyFrom(m.e, k, 1, FALSE)
FindKeyExact(m, k) == FindKeyFrom(m.e, k, 1, TRUE)
HasKey(m, k) == FindKey(m, k) # 0
\* a map in which some int key has a uint twin: which entry a twin lookup finds is not pinned
RECURSIVE CountKey(_, _, _)
CountKey(es, k, i) == IF i > Len(es) THEN 0
                      ELSE (IF SameKey(es[i][1], k) THEN 1 ELSE 0) + CountKey(es, k, i + 1)
AmbiguousKey(m, k) == CountKey(m.e, k, 1) > 1

\* insertion as a map literal does it: a later equal key replaces the earlier entry in place
MapInsert(es, k, v) ==
  LET i == FindKeyFrom(es, k, 1, TRUE)
  IN  IF i = 0 THEN Append(es, << k, v >>) ELSE [es EXCEPT ![i] = << k, v >>]

\* text of a key, as code points (ints/uints decimal, bools "true"/"false")
DigitCps(ds) == [i \in 1..Len(ds) |-> 48 + ds[i]]
KeyText(k) ==
  CASE k.t = "str"  -> k.cp
    [] k.t = "bool" -> IF k.v THEN <<116, 114, 117, 101>> ELSE <<102, 97, 108, 115, 101>>
    [] k.t = "uint" -> DigitCps(N!ToDigits(k.n.m))
    [] k.t = "int"  -> (IF k.n.s < 0 THEN <<45>> ELSE << >>) \o DigitCps(N!ToDigits(k.n.m))

-----------------------------------------------------------------------------
(* Arithmetic *)
OpName == {"add", "sub", "mul", "div", "rem"}

NumErr(r) == IF r.ok THEN r ELSE r   \* (identity; keeps call sites readable)
FromNum(kind, r) ==
  IF r.ok THEN R([t |-> kind, n |-> r.v])
  ELSE E(IF r.c = "rem0" THEN {"rem0", "div0"} ELSE {r.c})         \* a zero divisor of % may be reported as either

\* UTF-8 length of a code point sequence
Utf8Len1(c) == IF c < 128 THEN 1 ELSE IF c < 2048 THEN 2 ELSE IF c < 65536 THEN 3 ELSE 4
RECURSIVE Utf8LenFrom(_, _)
Utf8LenFrom(cp, i) == IF i > Len(cp) THEN 0 ELSE Utf8Len1(cp[i]) + Utf8LenFrom(cp, i + 1)
Utf8Len(cp) == Utf8LenFrom(cp, 1)
IsAscii(cp) == \A i \in 1..Len(cp) : cp[i] < 128

I64MinDur == NM!I64Min
InI64(n) == NM!InI64(n)

\* exact double arithmetic where the specification can decide it (see DblArith), else unknown
DblArithHook(op, a, b) ==
  IF a.b = << >> \/ b.b = << >> THEN D(R(AnyDbl))
  ELSE LET r == DB!ArithExact(op, a.b, b.b) IN IF r = << >> THEN D(R(AnyDbl)) ELSE R(VDbl(r))

Arith(op, a, b) ==
  IF a.t = "int" /\ b.t = "int" THEN FromNum("int", NM!Apply(op, "int", a.n, b.n))
  ELSE IF a.t = "uint" /\ b.t = "uint" THEN FromNum("uint", NM!Apply(op, "uint", a.n, b.n))
  ELSE IF a.t = "dbl" /\ b.t = "dbl" THEN
        (IF op = "rem" THEN E(TypeErr) ELSE DblArithHook(op, a, b))
  ELSE IF IsNum(a) /\ IsNum(b) THEN E(TypeErr)            \* mixed numeric kinds: never coerced
  ELSE IF op = "add" /\ a.t = "str" /\ b.t = "str" THEN R(VStr(a.cp \o b.cp))
  ELSE IF op = "add" /\ a.t = "list" /\ b.t = "list" THEN R(VList(a.e \o b.e))
  ELSE IF op = "add" /\ a.t = "bytes" /\ b.t = "bytes" THEN D(E(TypeErr))   \* CEL concatenates; not implemented
  ELSE IF op \in {"add", "sub"} /\ a.t = "dur" /\ b.t = "dur" THEN
        LET n == IF op = "add" THEN Z!Add(a.n, b.n) ELSE Z!Sub(a.n, b.n)
        IN  IF InI64(n) THEN R(VDur(n))
            ELSE D(E({"overflow", "type", "fnerr"}))     \* beyond 64-bit nanoseconds: an error, or a wider host duration
  ELSE IF (op = "add" /\ a.t = "ts" /\ b.t = "dur") \/ (op = "add" /\ a.t = "dur" /\ b.t = "ts")
          \/ (op = "sub" /\ a.t = "ts" /\ b.t = "dur") THEN
        LET ts == IF a.t = "ts" THEN a ELSE b
            d  == IF a.t = "ts" THEN b ELSE a
            n  == IF op = "add" THEN Z!Add(ts.n, d.n) ELSE Z!Sub(ts.n, d.n)
        IN  D(R(VTs(n, ts.off)))     \* range handling is the business of CelTime (C16)
  ELSE IF op = "sub" /\ a.t = "ts" /\ b.t = "ts" THEN D(R(VDur(Z!Sub(a.n, b.n))))
  ELSE E(TypeErr)

Negate(a) ==
  CASE a.t = "int"  -> FromNum("int", NM!NegK("int", a.n))
    [] a.t = "dbl"  -> IF a.b = << >> THEN D(R(AnyDbl))
                       ELSE R(VDbl([a.b EXCEPT ![1] = IF @ >= 32768 THEN @ - 32768 ELSE @ + 32768]))
    [] a.t = "uint" -> D(E({"type", "overflow"}))      \* -0u is 0u in principle; rejected here
    [] OTHER        -> E(TypeErr)

\* the six relations
Relation(op, a, b) ==
  IF op = "eq" THEN (IF HasNumKeyMap(a) /\ HasNumKeyMap(b) THEN D(R(VBool(Eq(a, b)))) ELSE R(VBool(Eq(a, b))))
  ELSE IF op = "ne" THEN (IF HasNumKeyMap(a) /\ HasNumKeyMap(b) THEN D(R(VBool(~Eq(a, b)))) ELSE R(VBool(~Eq(a, b))))
  ELSE LET c == Cmp(a, b) IN
       IF c = "inc" THEN E(TypeErr)
       ELSE IF c = "un" THEN D(E(TypeErr))           \* NaN: an error here, `false` in standard CEL
       ELSE LET res == CASE op = "lt" -> c = "lt" [] op = "le" -> c # "gt"
                         [] op = "gt" -> c = "gt" [] op = "ge" -> c # "lt"
            IN  IF a.t \in {"null", "bytes"} THEN D(R(VBool(res))) ELSE R(VBool(res))

\* x in c
RECURSIVE InList(_, _, _)
InList(x, es, i) == IF i > Len(es) THEN FALSE ELSE Eq(x, es[i]) \/ InList(x, es, i + 1)
RECURSIVE SubSeqAt(_, _, _)
SubSeqAt(hay, needle, i) ==     \* does needle occur in hay at or after position i?
  IF i + Len(needle) - 1 > Len(hay) THEN FALSE
  ELSE IF SubSeq(hay, i, i + Len(needle) - 1) = needle THEN TRUE
  ELSE SubSeqAt(hay, needle, i + 1)
Contains(hay, needle) == SubSeqAt(hay, needle, 1)

Membership(x, c) ==
  CASE c.t = "list" -> R(VBool(InList(x, c.e, 1)))
    [] c.t = "map"  -> IF IsKeyKind(x) THEN R(VBool(HasKey(c, x)))
                       ELSE D(R(VBool(FALSE)))         \* standard CEL: no such overload
    [] c.t = "str" /\ x.t = "str" -> D(R(VBool(Contains(c.cp, x.cp))))   \* substring: not CEL
    [] OTHER        -> E(TypeErr)

\* c[i]
IndexOp(c, i) ==
  CASE c.t = "list" /\ i.t = "int" ->
          IF i.n.s >= 0 /\ Z!Lt(i.n, Z!FromInt(Len(c.e))) THEN R(c.e[Z!ToInt(i.n) + 1])
          ELSE R(VNull)
    [] c.t = "list" -> (IF i.t \in {"uint", "dbl"} THEN D(E(TypeErr)) ELSE E(TypeErr))
    [] c.t = "map" /\ IsKeyKind(i) ->
          LET j == FindKey(c, i)
          IN  IF AmbiguousKey(c, i) THEN D(R(c.e[j][2]))
              ELSE IF j = 0 THEN R(VNull) ELSE R(c.e[j][2])
    [] c.t = "map" -> E(TypeErr)
    [] c.t = "str" /\ i.t = "int" -> D(R(VNull))      \* byte-substring indexing: not CEL
    [] OTHER -> E(TypeErr)

\* e.f  (fcp = the field name as code points); isFn = "f names a registered function"
SelectOp(v, fcp, isFn) ==
  IF v.t = "map" THEN
       LET j == FindKeyExact(v, VStr(fcp))
       IN  IF j # 0 THEN R(v.e[j][2])
           ELSE IF isFn THEN D(R(VFn("?")))
           ELSE E({"nokey"})
  ELSE IF isFn THEN D(R(VFn("?")))
  ELSE E({"nokey", "type"})

\* has(e.f)
HasOp(v, fcp) ==
  IF v.t = "map" THEN
       LET j == FindKeyExact(v, VStr(fcp))
       IN  IF j # 0 THEN R(VBool(TRUE))
           ELSE IF \E i \in 1..Len(v.e) : KeyText(v.e[i][1]) = fcp THEN D(R(VBool(TRUE)))
           ELSE R(VBool(FALSE))
  ELSE D(R(VBool(FALSE)))                              \* standard CEL: error on non-maps/messages
=============================================================================
