------------------------------- MODULE CelZoo -------------------------------
(***************************************************************************)
(* The host-function zoo registered by the conformance harness              *)
(* (harness/src/zoo.rs): signature (extractors in parameter order) and      *)
(* behaviour of each logging closure.                                       *)
(***************************************************************************)
EXTENDS Naturals, Sequences
LOCAL BF == INSTANCE CelBuiltins

P(x, ty) == [x |-> x, ty |-> ty]
H(sig, beh) == [kind |-> "host", sig |-> sig, beh |-> beh]
A == P("arg", "any")
TH == P("this", "any")

ZooNames == {"t", "tb", "fail", "h0", "h1", "h2", "h3", "h4", "m0", "m1", "m2", "m3", "va", "idf",
             "fi", "fu", "fd", "fs", "fy", "fb", "fl", "fis", "msi", "h9", "c0", "c2", "mo", "rs", "mw"}
Zoo(n) ==
  CASE n = "t"    -> H(<< P("arg", "int"), A >>, "id2")
    [] n = "tb"   -> H(<< P("arg", "int") >>, "odd1")
    [] n = "fail" -> H(<< P("arg", "int") >>, "fail")
    [] n = "h0"   -> H(<< >>, "pack")
    [] n = "h1"   -> H(<< A >>, "pack")
    [] n = "h2"   -> H(<< A, A >>, "pack")
    [] n = "h3"   -> H(<< A, A, A >>, "pack")
    [] n = "h4"   -> H(<< A, A, A, A >>, "pack")
    [] n = "m0"   -> H(<< TH >>, "pack")
    [] n = "m1"   -> H(<< TH, A >>, "pack")
    [] n = "m2"   -> H(<< TH, A, A >>, "pack")
    [] n = "m3"   -> H(<< TH, A, A, A >>, "pack")
    [] n = "va"   -> H(<< P("args", "any") >>, "pack")
    [] n = "idf"  -> H(<< P("ident", "any") >>, "pack")
    [] n = "fi"   -> H(<< P("arg", "int") >>, "pack")
    [] n = "fu"   -> H(<< P("arg", "uint") >>, "pack")
    [] n = "fd"   -> H(<< P("arg", "dbl") >>, "pack")
    [] n = "fs"   -> H(<< P("arg", "str") >>, "pack")
    [] n = "fy"   -> H(<< P("arg", "bytes") >>, "pack")
    [] n = "fb"   -> H(<< P("arg", "bool") >>, "pack")
    [] n = "fl"   -> H(<< P("arg", "list") >>, "pack")
    [] n = "fis"  -> H(<< P("arg", "int"), P("arg", "str") >>, "pack")
    [] n = "msi"  -> H(<< P("this", "str"), P("arg", "int") >>, "pack")
    [] n = "h9"   -> H(<< A, A, A, A, A, A, A, A, A >>, "pack")
    [] n = "c0"   -> H(<< >>, "pack")
    [] n = "c2"   -> H(<< A, P("arg", "int") >>, "pack")
    [] n = "mo"   -> H(<< TH, P("arg", "int"), P("arg", "str") >>, "pack")
    [] n = "rs"   -> H(<< P("arg", "int"), TH >>, "pack")                      \* the receiver is not the first parameter
    [] n = "mw"   -> H(<< P("arg", "str"), P("this", "int"), A >>, "pack")

\* Context::default() plus the zoo (a zoo name that coincides with a built-in replaces it)
FullRegistry == [n \in BF!BuiltinNames \cup ZooNames |-> IF n \in ZooNames THEN Zoo(n) ELSE BF!DefaultRegistry[n]]
=============================================================================
