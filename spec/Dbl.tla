-------------------------------- MODULE Dbl --------------------------------
(***************************************************************************)
(* IEEE-754 binary64 values by their exact denotation.  A double arrives   *)
(* as its four 16-bit words <<w3, w2, w1, w0>> (w3 most significant).      *)
(* Decoded form:                                                           *)
(*   [c |-> "nan"] | [c |-> "inf", neg] | [c |-> "fin", neg, m, e]         *)
(* with value (-1)^neg * m * 2^e, m a BigNat < 2^53, e in -1074..971.      *)
(* No floating point is needed: every question the properties ask is a     *)
(* question about the exact dyadic rational.                               *)
(***************************************************************************)
EXTENDS Naturals, Integers, Sequences
LOCAL N == INSTANCE BigNat
LOCAL Z == INSTANCE BigInt

IsBits(b) == Len(b) = 4 /\ \A i \in 1..4 : b[i] \in 0..65535

Neg(b)     == b[1] >= 32768
BiasedE(b) == (b[1] % 32768) \div 16
\* the 52-bit fraction field as a BigNat
Frac(b) == N!Add(N!Add(N!Mul(N!FromNat(b[1] % 16), N!Pow2(48)), N!Mul(N!FromNat(b[2]), N!Pow2(32))),
                 N!Add(N!Mul(N!FromNat(b[3]), N!Pow2(16)), N!FromNat(b[4])))

IsNaN(b)  == BiasedE(b) = 2047 /\ (b[1] % 16 # 0 \/ b[2] # 0 \/ b[3] # 0 \/ b[4] # 0)
IsInf(b)  == BiasedE(b) = 2047 /\ ~IsNaN(b)
IsFinite(b) == BiasedE(b) # 2047
IsZero(b) == BiasedE(b) = 0 /\ b[1] % 16 = 0 /\ b[2] = 0 /\ b[3] = 0 /\ b[4] = 0

Decode(b) ==
  IF IsNaN(b) THEN [c |-> "nan"]
  ELSE IF IsInf(b) THEN [c |-> "inf", neg |-> Neg(b)]
  ELSE IF BiasedE(b) = 0 THEN [c |-> "fin", neg |-> Neg(b), m |-> Frac(b), e |-> -1074]
  ELSE [c |-> "fin", neg |-> Neg(b), m |-> N!Add(N!Pow2(52), Frac(b)), e |-> BiasedE(b) - 1075]

\* ordering of magnitudes of two non-NaN doubles = ordering of their low 63 bits
MagKey(b) == << b[1] % 32768, b[2], b[3], b[4] >>
RECURSIVE LexCmp(_, _, _)
LexCmp(x, y, i) == IF i > Len(x) THEN 0
                   ELSE IF x[i] < y[i] THEN -1 ELSE IF x[i] > y[i] THEN 1 ELSE LexCmp(x, y, i + 1)
MagCmp(a, b) == LexCmp(MagKey(a), MagKey(b), 1)

\* "lt" "eq" "gt" "un"
CmpDD(a, b) ==
  IF IsNaN(a) \/ IsNaN(b) THEN "un"
  ELSE IF IsZero(a) /\ IsZero(b) THEN "eq"
  ELSE IF Neg(a) /\ ~Neg(b) THEN "lt"
  ELSE IF ~Neg(a) /\ Neg(b) THEN "gt"
  ELSE LET c == MagCmp(a, b) IN
       IF c = 0 THEN "eq"
       ELSE IF (c = -1) = ~Neg(a) THEN "lt" ELSE "gt"

Flip(r) == CASE r = "lt" -> "gt" [] r = "gt" -> "lt" [] OTHER -> r
OfInt(c) == CASE c = -1 -> "lt" [] c = 0 -> "eq" [] c = 1 -> "gt"

\* exact comparison of an integer n (BigInt, |n| < 2^65) with a double
CmpID(n, b) ==
  IF IsNaN(b) THEN "un"
  ELSE IF IsInf(b) THEN (IF Neg(b) THEN "gt" ELSE "lt")
  ELSE LET d == Decode(b)
           ds == IF N!IsZero(d.m) THEN 0 ELSE IF d.neg THEN -1 ELSE 1
       IN  IF n.s < ds THEN "lt"
           ELSE IF n.s > ds THEN "gt"
           ELSE IF ds = 0 THEN "eq"
           ELSE \* same non-zero sign: compare magnitudes |n| and m*2^e
             LET magc ==
                   IF d.e >= 0 THEN
                        (IF d.e > 12 /\ N!Le(N!Pow2(52), d.m) THEN -1   \* |d| >= 2^65 > |n|
                         ELSE N!Cmp(n.m, N!MulPow2(d.m, d.e)))
                   ELSE IF -d.e >= 53 THEN 1                            \* 0 < |d| < 1 <= |n|
                   ELSE N!Cmp(N!MulPow2(n.m, -d.e), d.m)
             IN  OfInt(IF ds = 1 THEN magc ELSE -magc)

\* truncation toward zero of a finite double, as a BigInt (only called when |d| < 2^65)
Trunc(b) ==
  LET d == Decode(b)
      mag == IF d.e >= 0 THEN N!MulPow2(d.m, d.e)
             ELSE IF -d.e >= 53 THEN << >>
             ELSE N!Div(d.m, N!Pow2(-d.e))
  IN  Z!Z(IF d.neg THEN -1 ELSE 1, mag)

\* is the finite double's magnitude < 2^k  (k <= 65)?
MagBelowPow2(b, k) == CmpID(Z!Pow2(k), [i \in 1..4 |-> IF i = 1 THEN b[1] % 32768 ELSE b[i]]) = "gt"

\* powers of two (computed on demand: definitions inside an instantiated module are not cached by TLC)
P2 == [k \in 0..140 |-> N!Pow2(k)]           \* kept for the model-checking modules that use it directly
PW(k) == N!Pow2(k)
\* number of significant bits of a BigNat: search upward from the lower bound 13 * (limbs - 1)  (2^13 < 10^4)
RECURSIVE BitLenFrom(_, _)
BitLenFrom(m, k) == IF N!Lt(m, PW(k)) THEN k ELSE BitLenFrom(m, k + 1)
BitLen(m) == IF N!IsZero(m) THEN 0 ELSE BitLenFrom(m, 13 * (Len(m) - 1))

W16 == << 5536, 6 >>          \* 65536
\* bits of the normal double (-1)^neg * M * 2^E where 2^52 <= M < 2^53; << >> if out of the normal range
EncodeNormal(neg, M, E) ==
  LET biased == E + 1075 IN
  IF biased < 1 \/ biased > 2046 THEN << >>
  ELSE LET frac == N!Sub(M, PW(52))
           d0 == N!DivMod(frac, W16)
           d1 == N!DivMod(d0[1], W16)
           d2 == N!DivMod(d1[1], W16)
       IN  << (IF neg THEN 32768 ELSE 0) + biased * 16 + N!ToNat(d2[1]),
              N!ToNat(d2[2]), N!ToNat(d1[2]), N!ToNat(d0[2]) >>

\* bits of the double exactly equal to (-1)^neg * m * 2^e, or << >> if that number is not a
\* normal double (needs more than 53 significant bits, or falls in the subnormal/overflow range)
EncodeExact(neg, m, e) ==
  IF N!IsZero(m) THEN << IF neg THEN 32768 ELSE 0, 0, 0, 0 >>
  ELSE LET L == BitLen(m) IN
       IF L <= 53 THEN EncodeNormal(neg, N!Mul(m, PW(53 - L)), e - (53 - L))
       ELSE LET dm == N!DivMod(m, PW(L - 53)) IN
            IF N!IsZero(dm[2]) THEN EncodeNormal(neg, dm[1], e + (L - 53)) ELSE << >>

\* ---- decimal <-> binary: comparison of a decimal rational with dyadic rationals ----
Pow5(k) == LET RECURSIVE F(_) F(i) == IF i = 0 THEN << 1 >> ELSE IF i >= 5 THEN N!MulLimb(F(i - 5), 3125) ELSE N!MulLimb(F(i - 1), 5) IN F(k)
Pow2Big(k) == N!Pow2(k)
Pow10Big(k) == N!Mul(Pow5(k), Pow2Big(k))
\* compare M * 10^E10 with K * 2^F2 (M, K BigNat; E10, F2 integers): -1, 0, 1
CmpDecBin(M, E10, K, F2) ==
  LET lhs == N!Mul(N!Mul(M, IF E10 >= 0 THEN Pow10Big(E10) ELSE << 1 >>), IF F2 < 0 THEN Pow2Big(-F2) ELSE << 1 >>)
      rhs == N!Mul(N!Mul(K, IF F2 >= 0 THEN Pow2Big(F2) ELSE << 1 >>), IF E10 < 0 THEN Pow10Big(-E10) ELSE << 1 >>)
  IN  N!Cmp(lhs, rhs)
\* Is the finite double with words b a correctly rounded value of the non-negative decimal M * 10^E10 ?
\* (magnitudes only; the caller handles the sign).  Accepts either neighbour on an exact tie.
\* x = m * 2^e; its rounding interval is [(2m-1) * 2^(e-1), (2m+1) * 2^(e-1)] (for the smallest mantissa of a
\* binade the lower half-gap is narrower; accepting the wider interval there only widens by half an ulp below).
RoundsTo(M, E10, b) ==
  LET d == Decode(b) IN
  IF N!IsZero(d.m) THEN N!IsZero(M) \/ CmpDecBin(M, E10, << 1 >>, -1075) <= 0           \* below half the smallest subnormal
  ELSE LET twoM == N!MulLimb(d.m, 2)
       IN  /\ CmpDecBin(M, E10, N!Sub(twoM, << 1 >>), d.e - 1) >= 0
           /\ CmpDecBin(M, E10, N!Add(twoM, << 1 >>), d.e - 1) <= 0
\* is M * 10^E10 at least the overflow threshold (2^1024 - 2^970, the midpoint above the largest double)?
Overflows(M, E10) == CmpDecBin(M, E10, N!Sub(PW(54), << 1 >>), 970) >= 0
\* within one unit in the last place of the exact value (either neighbour): used for int -> double
WithinUlp(M, E10, b) ==
  LET d == Decode(b) IN
  /\ CmpDecBin(M, E10, IF N!IsZero(d.m) THEN << >> ELSE N!Sub(d.m, << 1 >>), d.e) >= 0
  /\ CmpDecBin(M, E10, N!Add(d.m, << 1 >>), d.e) <= 0

\* ---- arithmetic on doubles, decided only where the exact result is itself a double ----
\* (IEEE-754 then leaves no freedom: the result must be that double.)  << >> = not decided here.
NaNBits == << 32760, 0, 0, 0 >>
InfBits(neg) == << IF neg THEN 65520 ELSE 32752, 0, 0, 0 >>
ZeroBits(neg) == << IF neg THEN 32768 ELSE 0, 0, 0, 0 >>
ArithExact(op, a, b) ==
  IF ~IsFinite(a) \/ ~IsFinite(b) THEN << >>
  ELSE LET x == Decode(a) y == Decode(b) IN
  CASE op = "mul" -> IF N!IsZero(x.m) \/ N!IsZero(y.m) THEN ZeroBits(x.neg # y.neg)
                     ELSE EncodeExact(x.neg # y.neg, N!Mul(x.m, y.m), x.e + y.e)
    [] op \in {"add", "sub"} ->
         LET yn == IF op = "sub" THEN ~y.neg ELSE y.neg
             e == IF x.e < y.e THEN x.e ELSE y.e
         IN  IF N!IsZero(x.m) /\ N!IsZero(y.m) THEN ZeroBits(x.neg /\ yn)
             ELSE IF N!IsZero(y.m) THEN a
             ELSE IF N!IsZero(x.m) THEN (IF op = "sub" THEN [b EXCEPT ![1] = IF @ >= 32768 THEN @ - 32768 ELSE @ + 32768] ELSE b)
             ELSE IF x.e - e > 130 \/ y.e - e > 130 THEN << >>
             ELSE LET X == Z!Z(IF x.neg THEN -1 ELSE 1, N!Mul(x.m, PW(x.e - e)))
                      Y == Z!Z(IF yn THEN -1 ELSE 1, N!Mul(y.m, PW(y.e - e)))
                      S == Z!Add(X, Y)
                  IN  IF S.s = 0 THEN ZeroBits(FALSE) ELSE EncodeExact(S.s < 0, S.m, e)
    [] op = "div" ->
         IF N!IsZero(y.m) THEN (IF N!IsZero(x.m) THEN NaNBits ELSE InfBits(x.neg # y.neg))
         ELSE IF N!IsZero(x.m) THEN ZeroBits(x.neg # y.neg)
         ELSE LET dm == N!DivMod(N!Mul(x.m, PW(64)), y.m) IN
              IF N!IsZero(dm[2]) THEN EncodeExact(x.neg # y.neg, dm[1], x.e - y.e - 64) ELSE << >>

\* the double exactly equal to the integer n (BigInt, |n| < 2^70), or << >>
OfIntExact(n) == EncodeExact(n.s < 0, n.m, 0)
=============================================================================
