------------------------------- MODULE Num64 -------------------------------
(***************************************************************************)
(* CEL's checked 64-bit integer arithmetic, stated on mathematical         *)
(* integers (BigInt): the result is the exact integer when it lies in the  *)
(* range of the operand type, and an error class otherwise.                *)
(*   Val(n)            a number                                            *)
(*   Err("overflow")   exact result not representable (also MIN / -1 and   *)
(*                     MIN % -1, as in cel-go)                              *)
(*   Err("div0") / Err("rem0")   zero divisor                              *)
(* The same definitions are used with a small width W by Num64MC, where    *)
(* TLC compares them with native arithmetic over ALL pairs.                *)
(***************************************************************************)
EXTENDS Naturals, Integers, Sequences
LOCAL Z == INSTANCE BigInt

Val(n) == [ok |-> TRUE, v |-> n]
Err(c) == [ok |-> FALSE, c |-> c]

\* range of a signed / unsigned type of width w bits
IMin(w) == Z!Neg(Z!Pow2(w - 1))
IMax(w) == Z!Sub(Z!Pow2(w - 1), Z!FromInt(1))
UMax(w) == Z!Sub(Z!Pow2(w), Z!FromInt(1))

I64Min == IMin(64)
I64Max == IMax(64)
U64Max == UMax(64)

InI(w, n) == Z!Le(IMin(w), n) /\ Z!Le(n, IMax(w))
InU(w, n) == n.s >= 0 /\ Z!Le(n, UMax(w))
InI64(n) == Z!Le(I64Min, n) /\ Z!Le(n, I64Max)
InU64(n) == n.s >= 0 /\ Z!Le(n, U64Max)

\* kind is "int" or "uint"
InRange(kind, n) == IF kind = "int" THEN InI64(n) ELSE InU64(n)
InRangeW(kind, w, n) == IF kind = "int" THEN InI(w, n) ELSE InU(w, n)

Checked(kind, n) == IF InRange(kind, n) THEN Val(n) ELSE Err("overflow")

AddK(kind, a, b) == Checked(kind, Z!Add(a, b))
SubK(kind, a, b) == Checked(kind, Z!Sub(a, b))
MulK(kind, a, b) == Checked(kind, Z!Mul(a, b))
DivK(kind, a, b) == IF b.s = 0 THEN Err("div0") ELSE Checked(kind, Z!DivT(a, b))
\* the remainder itself is always representable; MIN % -1 is an overflow because the
\* quotient is (cel-go, and the property statement)
RemK(kind, a, b) == IF b.s = 0 THEN Err("rem0")
                    ELSE IF ~InRange(kind, Z!DivT(a, b)) THEN Err("overflow")
                    ELSE Val(Z!RemT(a, b))
NegK(kind, a)    == IF kind = "int" THEN Checked("int", Z!Neg(a)) ELSE Err("unsupported")

Apply(op, kind, a, b) ==
  CASE op = "add" -> AddK(kind, a, b)
    [] op = "sub" -> SubK(kind, a, b)
    [] op = "mul" -> MulK(kind, a, b)
    [] op = "div" -> DivK(kind, a, b)
    [] op = "rem" -> RemK(kind, a, b)

\* the same at width w (for exhaustive small-width checking)
CheckedW(kind, w, n) == IF InRangeW(kind, w, n) THEN Val(n) ELSE Err("overflow")
ApplyW(op, kind, w, a, b) ==
  CASE op = "add" -> CheckedW(kind, w, Z!Add(a, b))
    [] op = "sub" -> CheckedW(kind, w, Z!Sub(a, b))
    [] op = "mul" -> CheckedW(kind, w, Z!Mul(a, b))
    [] op = "div" -> IF b.s = 0 THEN Err("div0") ELSE CheckedW(kind, w, Z!DivT(a, b))
    [] op = "rem" -> IF b.s = 0 THEN Err("rem0")
                     ELSE IF ~InRangeW(kind, w, Z!DivT(a, b)) THEN Err("overflow")
                     ELSE Val(Z!RemT(a, b))
=============================================================================
