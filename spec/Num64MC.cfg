SPECIFICATION Spec
CONSTANT W = 6
INVARIANTS AgreesWithNative Laws
CHECK_DEADLOCK FALSE
