------------------------------ MODULE Num64MC ------------------------------
(***************************************************************************)
(* Exhaustive small-width check of the checked-arithmetic definitions of   *)
(* Num64: with width W every pair of W-bit signed (and unsigned) values is *)
(* a state; the invariants compare ApplyW with TLC's native integers and   *)
(* state the algebraic laws of the property.  A second family of states    *)
(* runs the same laws at width 64 on all pairs of a boundary set.          *)
(***************************************************************************)
EXTENDS Naturals, Integers, Sequences, TLC
CONSTANT W
Z  == INSTANCE BigInt
NM == INSTANCE Num64

VARIABLES kind, a, b, wide
vars == << kind, a, b, wide >>

Pow(k) == IF k = 0 THEN 1 ELSE 2 ^ k
SMin == -(2 ^ (W - 1))
SMax == 2 ^ (W - 1) - 1
UMaxW == 2 ^ W - 1

\* 64-bit boundary values as BigInts
B(k) == Z!Pow2(k)
One == Z!FromInt(1)
Boundary64 ==
  LET pos == { Z!FromInt(0), One, Z!FromInt(2), Z!FromInt(3), Z!FromInt(7), Z!FromInt(10),
               Z!Sub(B(31), One), B(31), Z!Sub(B(32), One), B(32), Z!Add(B(32), One),
               Z!Sub(B(53), One), B(53), Z!Add(B(53), One), B(62), Z!Sub(B(62), One), Z!Add(B(62), One),
               Z!Sub(B(63), Z!FromInt(2)), Z!Sub(B(63), One), Z!FromInt(30370), Z!Mul(Z!FromInt(30370), Z!FromInt(100000)) }
  IN  pos \cup { Z!Neg(x) : x \in pos } \cup { Z!Neg(B(63)), Z!Add(Z!Neg(B(63)), One) }
BoundaryU64 == { x \in Boundary64 : x.s >= 0 } \cup { B(63), Z!Add(B(63), One), Z!Sub(B(64), One), Z!Sub(B(64), Z!FromInt(2)) }

Init == \/ /\ wide = FALSE
           /\ \/ (kind = "int" /\ a \in SMin..SMax /\ b \in SMin..SMax)
              \/ (kind = "uint" /\ a \in 0..UMaxW /\ b \in 0..UMaxW)
        \/ /\ wide = TRUE
           /\ \/ (kind = "int" /\ a \in Boundary64 /\ b \in Boundary64)
              \/ (kind = "uint" /\ a \in BoundaryU64 /\ b \in BoundaryU64)
Next == UNCHANGED vars
Spec == Init /\ [][Next]_vars

InR(n) == IF kind = "int" THEN n >= SMin /\ n <= SMax ELSE n >= 0 /\ n <= UMaxW
\* truncated division on native integers
TDiv(x, y) == LET q == (IF x < 0 THEN -x ELSE x) \div (IF y < 0 THEN -y ELSE y)
              IN  IF (x < 0) = (y < 0) THEN q ELSE -q
TRem(x, y) == x - y * TDiv(x, y)
Exp(op) == CASE op = "add" -> a + b [] op = "sub" -> a - b [] op = "mul" -> a * b
             [] op = "div" -> TDiv(a, b) [] op = "rem" -> TRem(a, b)

Ops == {"add", "sub", "mul", "div", "rem"}
\* small width: the definitions agree with native arithmetic on every pair
AgreesWithNative ==
  ~wide => \A op \in Ops :
    LET r == NM!ApplyW(op, kind, W, Z!FromInt(a), Z!FromInt(b)) IN
    IF op \in {"div", "rem"} /\ b = 0 THEN ~r.ok /\ r.c = (IF op = "div" THEN "div0" ELSE "rem0")
    ELSE IF op = "rem" THEN (IF InR(TDiv(a, b)) THEN r.ok /\ r.v = Z!FromInt(TRem(a, b)) ELSE ~r.ok /\ r.c = "overflow")
    ELSE IF InR(Exp(op)) THEN r.ok /\ r.v = Z!FromInt(Exp(op))
    ELSE ~r.ok /\ r.c = "overflow"

\* laws of the property, stated on the results themselves (both widths)
Ap(op) == IF wide THEN NM!Apply(op, kind, a, b) ELSE NM!ApplyW(op, kind, W, Z!FromInt(a), Z!FromInt(b))
AA == IF wide THEN a ELSE Z!FromInt(a)
BB == IF wide THEN b ELSE Z!FromInt(b)
InRng(n) == IF wide THEN NM!InRange(kind, n) ELSE NM!InRangeW(kind, W, n)
Laws ==
  /\ \A op \in {"add", "sub", "mul"} :        \* exact iff representable
        LET exact == CASE op = "add" -> Z!Add(AA, BB) [] op = "sub" -> Z!Sub(AA, BB) [] op = "mul" -> Z!Mul(AA, BB)
        IN  IF InRng(exact) THEN Ap(op).ok /\ Ap(op).v = exact ELSE ~Ap(op).ok /\ Ap(op).c = "overflow"
  /\ (BB.s # 0 /\ Ap("div").ok /\ Ap("rem").ok) =>
        /\ Z!Add(Z!Mul(Ap("div").v, BB), Ap("rem").v) = AA          \* (a/b)*b + a%b = a
        /\ Z!Lt(Z!Abs(Ap("rem").v), Z!Abs(BB))                      \* |a%b| < |b|
        /\ (Ap("rem").v.s = 0 \/ Ap("rem").v.s = AA.s)              \* sign of the dividend
        /\ Z!Le(Z!Abs(Z!Mul(Ap("div").v, BB)), Z!Abs(AA))           \* truncation toward zero
  /\ BB.s = 0 => (~Ap("div").ok /\ ~Ap("rem").ok)
  /\ Ap("add") = (IF wide THEN NM!Apply("add", kind, b, a) ELSE NM!ApplyW("add", kind, W, BB, AA))   \* commutativity
  /\ Ap("mul") = (IF wide THEN NM!Apply("mul", kind, b, a) ELSE NM!ApplyW("mul", kind, W, BB, AA))
  /\ \A op \in Ops : Ap(op).ok => InRng(Ap(op).v)                   \* never a value outside the type
=============================================================================
