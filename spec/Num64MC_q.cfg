SPECIFICATION Spec
CONSTANT W = 5
INVARIANTS AgreesWithNative Laws
CHECK_DEADLOCK FALSE
