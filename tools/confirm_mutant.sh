#!/bin/bash
# usage: confirm_mutant.sh <PROP> <n>  -- confirms /tmp/mut_<PROP>/OUT/patch<n>.diff + demo<n>.rs in the scratch
# worktree /tmp/mut_<PROP> against /repo's current HEAD, and stores it under /verif/seeded/<PROP>_<n>/
prop=$1; n=$2
wt=/tmp/mut_$prop; out=$wt/OUT; dest=/verif/seeded/${prop}_${SUFFIX}$n
[ -f $out/patch$n.diff ] || { echo "no patch"; exit 2; }
cd $wt || exit 2
git checkout -q --detach main 2>/dev/null; git reset -q --hard main; git clean -fdq -e OUT -e target
head=$(git rev-parse --short HEAD)
demo_dir=interpreter/tests
grep -q "cel_parser" $out/demo$n.rs && ! grep -q "cel_interpreter" $out/demo$n.rs && demo_dir=antlr/tests
grep -qi "antlr/tests" $out/README.md && grep -qi "demo$n.rs.*antlr/tests\|antlr/tests.*demo$n" $out/README.md && demo_dir=antlr/tests
mkdir -p $demo_dir; cp $out/demo$n.rs $demo_dir/demo.rs
crate=cel-interpreter; [ $demo_dir = antlr/tests ] && crate=cel-parser
feat=""; grep -q "\.json()" $out/demo$n.rs && feat="--features json"
# 1. demo passes on the clean tree
cargo test --offline -q -p $crate $feat --test demo > $out/confirm_clean_$n.log 2>&1; clean_rc=$?
# 2. apply patch
if git apply --check $out/patch$n.diff 2>/dev/null; then git apply $out/patch$n.diff; applied=plain
elif git apply --3way $out/patch$n.diff 2>/dev/null; then applied=3way
else echo "$prop $n: PATCH DOES NOT APPLY on $head"; rm -rf $demo_dir/demo.rs; git reset -q --hard; exit 3; fi
git diff -- antlr/src interpreter/src > $out/patch${n}_rebased.diff
cargo test --offline -q -p $crate $feat --test demo > $out/confirm_mut_$n.log 2>&1; mut_rc=$?
# 3. existing suite with the patch (demo removed)
rm -f $demo_dir/demo.rs; rmdir $demo_dir 2>/dev/null
cargo test --workspace --offline > $out/confirm_suite_$n.log 2>&1; suite_rc=$?
passed=$(grep -E "^test result: ok" $out/confirm_suite_$n.log | awk '{s+=$4} END {print s}')
git reset -q --hard; git clean -fdq -e OUT -e target
echo "$prop $n: head=$head apply=$applied demo_clean_rc=$clean_rc demo_mut_rc=$mut_rc suite_rc=$suite_rc tests_passed=$passed"
if [ $clean_rc = 0 ] && [ $mut_rc != 0 ] && [ $suite_rc = 0 ]; then
  mkdir -p $dest; cp $out/patch${n}_rebased.diff $dest/patch.diff; cp $out/demo$n.rs $dest/demo.rs
  python3 - "$prop" "$n" "$head" "$demo_dir" "$passed" "$SUFFIX" <<'PY'
import json,sys,re
prop,n,head,demo_dir,passed,sfx=sys.argv[1:7]
readme=open(f"/tmp/mut_{prop}/OUT/README.md").read()
json.dump({"property":prop,"mutation":int(n),"base_commit":head,"demo_location":demo_dir+"/demo.rs",
 "confirmed":{"suite_passes_with_patch":True,"tests_passed":int(passed or 0),"demo_fails_with_patch":True,"demo_passes_without":True,
              "commands":["cargo test --offline -p <crate> --test demo (clean): pass","git apply patch.diff; cargo test --offline -p <crate> --test demo: FAIL","cargo test --workspace --offline (patched, demo removed): pass"]},
 "needs_to_manifest":"see readme excerpt","readme":readme[:6000]}, open(f"/verif/seeded/{prop}_{sfx}{n}/meta.json","w"), indent=1)
PY
  echo "  stored in $dest"
else
  echo "  NOT CONFIRMED"
fi
