#!/usr/bin/env python3
"""Regenerates MANIFEST.json from the table below (single source of truth for the interface)."""
import json, os
ROOT = os.path.dirname(os.path.dirname(os.path.abspath(__file__)))
props = [json.loads(l) for l in open(os.path.join(ROOT, "properties.jsonl"))]

NOTE_COMMON = ("Trusted base: TLC 1.8.0 and the CommunityModules Json/IOUtils readers, the harness's structural encoder "
               "(harness/src/enc.rs), rustc/cargo. The specification is a second, independently structured evaluator; "
               "agreement is shown on the explored inputs only (exhaustive small scope + seeded random), it is not a proof.")

CLAIMED = {
 "C03": dict(cat="translation_validation", ref="6 C03",
   tech="TLA+ abstract machine (CelEval) model-checked against a declarative denotation (CelDen) with TLC; trace validation of real executions and replay of TLC-generated programs",
   text="Every explored program's value / error class / host-call log produced by cel-rust must be a behaviour of the TLA+ evaluator specification, which TLC has checked against an independent declarative semantics on all programs up to 2 operators over boundary leaves. Exhaustive for the generated small programs, seeded random (depth<=6) beyond, preceded by directed complete tables (aliased NaN operands, substring search over all word pairs of a small scope, int/uint/double ordering around small integers, map-literal evaluation order). `matches` is specified for a fragment of the regex syntax (CelRegex, checked by TLC against an independent denotational reading) and cel-rust's answers for every token string up to 3/4 tokens are validated."),
 "C06": dict(cat="model_checking", ref="6 C06",
   tech="TLC model checking of the CelEval abstract machine over all small &&/||/?: programs (invariants OnlyNeeded, ResultMatchesDen), every generated program replayed into cel-rust, plus trace validation of random nestings",
   text="TLC explores every program with <=2 (quick) / <=3 (thorough) logical operators over constant, erroring and logging leaves, also inside macro bodies; at every machine step the host calls made are a prefix of those the declarative semantics needs. Each generated source text is executed by cel-rust and its log/outcome validated against the spec's own tree, so parser and evaluator are judged together."),
 "C07": dict(cat="model_checking", ref="6 C07",
   tech="TLC model checking of call/argument evaluation order in CelEval vs CelDen; generated programs replayed; trace validation of logged random programs",
   text="All programs with <=3 call/operator nodes over every call shape (global, receiver, list, map entry, operator) are model-checked: the ordered host-call log equals the denotation's (each operand once, in source order). cel-rust's recorded log must equal it for each generated program and for random programs of depth <=8 in which most nodes are wrapped by the logging function."),
 "C10": dict(cat="model_checking", ref="6 C10",
   tech="TLC: operational macro expansion (comprehension machine) = declarative fold (CelDen) over all lists up to a bound; generated programs replayed; trace validation of random macro programs",
   text="For all five macros and every context list over a small alphabet (length <=2 quick, <=5 thorough) TLC checks that running the parser-style expansion on the abstract machine equals the defining fold (value, error, visited elements, host log). Every (list, program) pair is then executed by cel-rust and validated; further configurations cover map ranges, quantifiers whose bodies fail or log (first error aborts, later elements unvisited) and, in the thorough tier, macros chained on macros. Directed tables of nested and chained macros precede the random programs."),
 "C08": dict(cat="model_checking", ref="6 C08",
   tech="TLC: Num64 checked-arithmetic definitions exhaustively compared with native arithmetic at width 5/6 and algebraic laws on a 64-bit boundary set; trace validation (CelOpTrace) of every boundary pair executed by cel-rust",
   text="The definition 'exact result if representable, else overflow/div0' is model-checked exhaustively at small width and on all pairs of a 64-bit boundary set ((a/b)*b+a%b=a, sign of remainder, commutativity, never out of range). cel-rust's outcome for every ordered pair of ~55 i64 and ~30 u64 boundary values under + - * / % and unary minus -- as literals, as variables and through the host-side operator impls -- plus mixed kinds and random pairs must equal the definition."),
 "C09": dict(cat="model_checking", ref="6 C09",
   tech="TLC: coherence laws of CelValue Eq/Cmp over a boundary pool (pairs, triples); the implementation's complete observed relation table checked by TLC against Cmp/Eq cell by cell and against the laws themselves (CelCmpLaws)",
   text="Equality/ordering are specified on exact denotations (BigInt vs exact dyadic doubles) and their coherence is model-checked. cel-rust's full table of == != < <= > >= over ~80 boundary values (every ordered pair), in/min/max and the host-side PartialEq/PartialOrd are validated against it; the laws (negation, trichotomy, symmetry, transitivity over every triple, NaN) are re-checked on the observed table independently of the spec's cells."),
 "C14": dict(cat="model_checking", ref="6 C14",
   tech="TLC: map/list model (CelMapMC) over all key-insertion sequences and queries; trace validation of every small map x query key x query form executed by cel-rust",
   text="In the model all five query forms are functions of one key-presence notion with int/uint twins identified, literals keep exactly their entries, list indexing and additivity laws hold. cel-rust answers every query form for every map with <=4 keys of a 10-key alphabet (twins and zero included) and 18 query keys, all lists up to length 5 with all indices incl. extremes, and random concatenations; each answer must equal the model's."),
 "C11": dict(cat="model_checking", ref="6 C11",
   tech="TLC: CelContext state graph with invariants/action properties; every transition replayed on a real Context (transition coverage) and validated by CelContextTrace; macro scoping model-checked in CelEval and replayed",
   text="The scope-chain machine (define, redefine, open, close, register function) is model-checked over its whole state graph (InnermostWins, ParentsFrozen, CloseRestores, NamespacesDisjoint). Every edge of the graph is driven on a real cel-rust Context from a shortest path and all lookups in both namespaces are compared after each operation and during scope drop; random histories up to 200 operations are validated the same way. Macro scoping: all programs nesting macros over clashing names are model-checked (ScopeDiscipline) and executed."),
 "C02": dict(cat="model_checking", ref="6 C02",
   tech="TLC: totality (NoStuck/Bounded) of the CelEval machine over all small ill- and well-typed programs; trace validation where a panic/time-out event has no spec action; kind table and host-operator pair table",
   text="The specification is total: TLC shows that every operator x operand-kind combination has a rule giving a value or an error class (no stuck state) on all programs with <=2 operators over one leaf per kind. cel-rust is then driven over random untyped programs (depth<=8), an exhaustive one-level table of ~120 program forms x every pair of ~60 values of all kinds and extremes, and all pairs of ~110 values under the host-side operators; a recorded panic or time-out is rejected because no behaviour of the specification contains it. Observed, not proved: exploration guided and judged by the model.",
   note="Absence of panics on unexplored inputs is not established; the watchdog/recursion limits of the ANTLR runtime and stack overflow on very deep nesting are outside the explored depth (<=8). " + NOTE_COMMON),
 "C05": dict(cat="model_checking", ref="6 C05",
   tech="TLC: CelShare (threads x reference-counted buffers x root context) over all interleavings, with negative configurations; trace validation of execution histories and of multi-threaded runs; Send+Sync compile probe",
   text="The copy-on-write design is model-checked for 2-3 threads each running every program of <=4 heap operations at reference-count granularity (RootImmutable, NoDangling, ResultIsSequential, HeldValuesStable), and the invariants are shown non-vacuous by deviations that violate them. cel-rust is bound by histories (5-50 executions against one Context; the context and every value obtained so far are re-read after each execution) and by 2-16 OS threads sharing programs and root context, where each concurrent outcome must equal the outcome alone and the specification's.",
   note="Real schedules are whatever the OS produces (exhaustive interleavings exist only in the model); word-level data races are outside TLA+'s reach. " + NOTE_COMMON),
 "C19": dict(cat="model_checking", ref="6 C19",
   tech="TLC: invariant LookedUpSubsetRefs on the CelEval machine's `looked` set over all small programs with names in every position; CelRefsTrace validates reports against the machine's looked set and the four observable clauses",
   text="The machine records every name handed to variable lookup or function dispatch; TLC checks on all programs with <=2 operators that these occur in the source and that an undeclared outcome names one of them. For cel-rust's report R on random programs (depth<=7): looked(spec run) is inside R on every recorded run, undeclared names are in R, a context defining all of R never yields undeclared, reported variables are identifiers of the source and never macro-internal, and the report is stable."),
 "C20": dict(cat="model_checking", ref="6 C20",
   tech="TLC: extractor-by-extractor call binding in CelEval vs CelDen over all small call programs; trace validation of the zoo signature table x argument counts/kinds x both styles, twin styles for built-ins, overrides",
   text="Receiver/argument binding is specified extractor by extractor (receiver, typed/raw argument, all-arguments, identifier) and model-checked against the denotation on all programs with <=2 calls. Every zoo signature (arity 0-9) is called with 0..arity+2 arguments of matching and mismatching kinds in both styles; what the closure logged and the outcome must equal the specification. x.f(a) and f(x,a) are recorded side by side for every receiver-style built-in over 11 kinds and must agree; overriding a built-in must take effect, also inside macro bodies."),
 "C15": dict(cat="model_checking", ref="6 C15",
   tech="TLC: CelDuration (Go duration grammar, exact decimal parse, canonical print) round-trip theorem on a boundary grid; trace validation of string(d), duration(s) over a mutation grammar, + - and comparisons",
   text="Parse and Format are specified on exact nanosecond counts and TLC checks Parse(Format(n)) = n and the rendering's shape over boundary values of both signs. cel-rust's string(d) must equal Format exactly, duration(string(d)) == d, duration(s) must be rejected exactly when s is not a sequence of decimal-number-plus-unit terms (trailing text, missing unit, exponent, inf/nan, spaces...), and + - < <= > >= == on all boundary pairs must act on the nanosecond counts or report overflow."),
 "C16": dict(cat="model_checking", ref="6 C16",
   tech="TLC: proleptic Gregorian calendar of CelTime checked day by day (round trip, successor, weekday, year-day, anchors); trace validation of parse, accessors, rendering, comparison and arithmetic on harness-written RFC 3339 timestamps",
   text="The calendar is specified from first principles and every day number of a multi-century range is a TLC state (civil<->days round trip, next-day, weekday, year-day, known anchors). Timestamps are written as RFC 3339 text by the harness (boundary dates x times x offsets -12:00..+14:00, random), parsed by cel-rust and the instant compared with the specification's own parse; each of the ten accessors must return the local calendar field with the documented origin; string(t) must denote the same instant/offset; ordering is by instant; t+d-d==t and (t+d)-t==d within years 1..9999."),
 "C17": dict(cat="model_checking", ref="6 C17",
   tech="TLC: CelSerde shape theorem and JSON commuting theorem over all serde terms / documents of depth <=2 (CelDataMC); trace validation of to_value on a dynamic any-serde-type generator and of the serde_json commuting square",
   text="The serde data model and its conversion are specified term by term; TLC checks over every term of depth <=2 that the converted value has the term's shape, that unsupported key kinds are errors, and that Export(Import(doc)) = doc. cel-rust's to_value / Context::add_variable are driven by a Term whose Serialize impl calls exactly the named Serializer methods (all widths at extremes, every key kind, protocol misuse, the private marker names with foreign content): the outcome must equal the specification's and never be a panic; on JSON-representable terms json(to_value(t)) must equal serde_json::to_value(t)."),
 "C18": dict(cat="model_checking", ref="6 C18",
   tech="TLC: CelJson Export totality and Import-after-Export theorems over all values of depth <=2 (CelDataMC); trace validation of Value::json() and of to_value(json(v)) on random values of every kind",
   text="Export is specified (arrays, objects keyed by key text, standard padded base64 written out in the spec, RFC 3339 text denoting the instant, nanosecond counts, null for non-finite doubles, errors for functions and durations beyond 64-bit ns) and TLC checks totality and the import/export round trip over all values of depth <=2 including colliding key texts. Every random value (depth<=5) exported by cel-rust must produce exactly that document or that error, never a panic, and importing it back must give an equal value on the JSON-native fragment.",
   note="Built with the cargo feature `json` (outside the 67-test baseline). " + NOTE_COMMON),
 "C13": dict(cat="model_checking", ref="6 C13",
   tech="TLC evaluates the literal grammars and exact decimal/binary rounding-interval test of CelNumLit/Dbl (laws checked in CelNumLitMC); trace validation of every boundary literal form and conversion executed by cel-rust",
   text="Int/uint literals (decimal, hex, signed, u-suffixed) are specified by their exact BigInt denotation and range; a double literal or double(string) result is accepted iff it lies in the rounding interval of the exact decimal (decided with exact big-number comparison, no floating point), out-of-range literals must be compile errors; int()/uint()/double() are specified on exact values (truncation, NaN/inf/range errors). cel-rust is run on all boundary values and random 64-bit patterns in every literal form and through every conversion and string() round trip.",
   note="This is the weaker fit for TLA+ (a transcribed function evaluated by TLC); the transcription is written from the CEL/IEEE definitions, not from the Rust, and its laws are checked in CelNumLitMC. " + NOTE_COMMON),
 "C12": dict(cat="model_checking", ref="6 C12",
   tech="TLC: CelLiteral decoder automaton with theorem Decode(Encode(s)) = s over all short strings x quoting styles x spelling choices; trace validation of every escape in every style executed by cel-rust; known findings as named KF_ actions",
   text="The literal decoder (prefixes, four quoting styles, raw forms, every escape family, surrogate / range rules, UTF-8 for bytes) is an explicit automaton; TLC checks that every spelling of every string of length <=2 over a 9-character alphabet decodes to that string. cel-rust compiles and evaluates every \\x, \\X, \\OOO, \\u (sampled in quick, all in thorough), boundary \\U and single-character escape in every style as string, bytes, raw and raw-bytes literal, malformed escapes, and random strings with random spelling; each value must equal the decoder's and each invalid literal must be a compile error. Three pinned/generated-code defects are modelled as KF_ actions and reported as KNOWN-FINDING."),
 "C01": dict(cat="model_checking", ref="6 C01",
   tech="TLC: CelLex + CelGrammar (transcription of CEL.g4) classify every short token string (CelSentenceMC); each string and seeded random texts / mutants are compiled by cel-rust and validated by CelParseTrace (accepted => sentence; rejected => positioned non-empty errors; panic never)",
   text="The lexer and grammar of CEL.g4 are transcribed as a maximal-munch scanner and a recursive-descent recogniser in TLA+. TLC enumerates every string of <=3/4 tokens over a 16-token alphabet; cel-rust compiles each, plus random character strings up to 4 KiB, random token sequences, valid expressions and their single-token mutants, nesting to depth 32 and malformed probes (multi-line macro errors included). An accepted text must be a sentence of the transcription, a rejection must carry >=1 error with non-empty text and a position inside the source, parser and Program::compile must agree, and a panic event has no spec action.",
   note="Termination of the ANTLR runtime is observed (inputs up to 4 KiB, nesting 32), not proved; the lexer model transcribes the .g4 rules, not the generated cellexer.rs. " + NOTE_COMMON),
 "C04": dict(cat="model_checking", ref="6 C04",
   tech="TLC: theorem Parse(RenderFull(t)) = Parse(RenderMin(t)) = t for every small tree (CelParseMC: printer CelRender vs grammar transcription CelGrammar); every rendered pair parsed by cel-rust and compared with the model's tree; trace validation of chains, prefix runs and random decorated trees",
   text="A precedence-aware printer (full and minimal parentheses) and the grammar transcription are checked against each other by TLC on every tree with <=2/3 operators from the complete operator set, macros expanded around their receiver/arguments. cel-rust parses both renderings of each tree and must return the model's tree; additionally every && / || chain up to 64 operands, prefix runs up to 6, precedence probes and random trees of depth <=7 (also with redundant parentheses, whitespace and comments) must yield the AST the transcription assigns to the text (chains compared flattened, source order kept)."),
}

def main():
    checks = []
    na = []
    for p in props:
        pid = p["id"]
        if pid in CLAIMED:
            c = CLAIMED[pid]
            checks.append({
                "property_id": pid,
                "quick_cmd": "./check %s --tier quick" % pid,
                "thorough_cmd": "./check %s --tier thorough" % pid,
                "evidence_file": "evidence/%s.json" % pid,
                "replay_cmd_template": "./check %s --replay {path}" % pid,
                "engine": "tla-spec-suite",
                "level_claimed": {"category": c["cat"], "text": c["text"], "design_ref": "DESIGN.md section " + c["ref"]},
                "level_note": c.get("note", NOTE_COMMON),
                "technique": c["tech"],
            })
        else:
            na.append({"property_id": pid, "reason": NA.get(pid, "check not built yet (build in progress; see DESIGN.md section 10)")})
    m = {
        "version": 1,
        "setup_cmd": "./check --setup",
        "hooks": {"guard": "cel_verif",
                  "enable": "harness/.cargo/config.toml passes --cfg cel_verif; no source hook exists: every check observes cel-rust through its public API",
                  "baseline_off_cmd": "cd /repo && cargo test --workspace --no-fail-fast --offline",
                  "source_commits": [], "add_only": True},
        "engines": [{"name": "tla-spec-suite", "path": "spec/", "serves_properties": sorted(CLAIMED.keys()),
                     "kind_free_text": "explicit TLA+ specifications checked with TLC; bound to cel-rust by trace validation (harness/ records executions, spec/*Trace.tla accepts or rejects them) and by replaying TLC-generated programs/vectors"}],
        "checks": checks,
        "not_applicable": na,
        "notes": "Model-based verification with explicit TLA+ specifications (spec/), see DESIGN.md. Exit 2 = tool error (never a verdict about cel-rust).",
    }
    json.dump(m, open(os.path.join(ROOT, "MANIFEST.json"), "w"), indent=1)
    print("MANIFEST: %d checks, %d not_applicable" % (len(checks), len(na)))

NA = {}
if __name__ == "__main__":
    main()
