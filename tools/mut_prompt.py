#!/usr/bin/env python3
"""Writes the task text given to a fresh sub-agent that is to produce seeded changes for one property.
usage: mut_prompt.py <PROP> <worktree dir>   (the agent gets ONLY this text: the property and its scratch worktree)
Workflow (see DESIGN.md A.6): git -C /repo worktree add --detach /tmp/mutb_<ID> HEAD; ln -sfn /tmp/mutb_<ID> /tmp/mut_<ID>;
launch the agent with this text; SUFFIX=<round> tools/confirm_mutant.sh <ID> <n>; git -C /repo worktree remove --force /tmp/mutb_<ID>;
tools/try_mutant.sh seeded/<ID>_<round><n>/patch.diff <ID>."""
import sys, json, os
ROOT = os.path.dirname(os.path.dirname(os.path.abspath(__file__)))
pid, wt = sys.argv[1], sys.argv[2]
p = [json.loads(l) for l in open(os.path.join(ROOT, "properties.jsonl")) if json.loads(l)["id"] == pid][0]
prop = "%s: %s\n\nStatement: %s\n\nQuantified over: %s\n\nWhy the existing tests cannot settle it: %s\n\nRelevant files: %s\n" % (
    p["id"], p["title"], p["statement"], p["quantifier"]["text"], p["why_tests_cant"], ", ".join(p["anchors"]["files"]))
print(f"""You are helping test a verification framework by producing realistic *bug injections* for a Rust project. Work ONLY inside the git worktree {wt} (a checkout of the cel-rust repository: a Rust implementation of Google's Common Expression Language; crates `antlr/` = cel-parser, `interpreter/` = cel-interpreter). Do NOT read or write anything under /repo or /verif. There is no network; build with `cargo ... --offline`.

Here is a semantic property that the library is supposed to satisfy:

---
{prop}
---

Your job: produce TWO different, independent source changes ("mutations") to the library code in {wt} (under antlr/src or interpreter/src; not the tests), each of which
 1. still compiles,
 2. still passes the ENTIRE existing test suite unchanged (`cd {wt} && cargo test --workspace --offline` - all 67 tests must pass; do not edit any test),
 3. BREAKS the property above, but only in a way that needs something specific to manifest - e.g. a multi-step sequence of operations, an unusual input or boundary value, a particular nesting/combination, a particular interleaving, or two cooperating code sites that each look fine alone. It must NOT be something ordinary everyday use would expose at once (e.g. do not just make `1 + 1` wrong). Think of realistic mistakes a maintainer might make in a refactor or an 'optimisation'.
 4. comes with a demonstration: a small self-contained Rust integration test file (to be placed at interpreter/tests/demo.rs or antlr/tests/demo.rs, using only the public API) that FAILS with your change applied and PASSES on the unmodified code. Verify both directions yourself.

The two mutations should be different in kind (different code sites / different mechanisms). Note the current code base may already violate the property in some ways; your mutation must introduce a NEW violation that your demo shows (demo passes on the unmodified tree).

Deliverables (write them into the directory {wt}/OUT/, create it):
 - patch1.diff and patch2.diff : `git diff` output of each mutation alone relative to the unmodified checkout (library source changes only, NOT including the demo file). Each must apply cleanly with `git apply` on the clean checkout.
 - demo1.rs and demo2.rs : the demonstration test files, plus a note of where each must be placed (interpreter/tests/ or antlr/tests/).
 - README.md : for each mutation: what it changes, why it breaks the property, what specific circumstances are needed for it to manifest, the exact commands you ran and their results (test suite passes with mutation; demo fails with mutation; demo passes without).
When finished, restore the worktree's tracked files to the clean state (`git -C {wt} checkout -- .`), leaving only OUT/ (untracked) behind. Do not leave demo files in the source tree. Keep the target/ directory (do not delete it). Your final message should summarise the two mutations in a few lines each.""")
