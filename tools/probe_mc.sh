#!/bin/bash
# probe_mc.sh <module> <cfg> <workers> <timeout_s>: run one model under a timeout and report size
m=$1; c=$2; w=${3:-12}; t=${4:-900}
cd /verif/spec
s=$(date +%s)
JAVA_TOOL_OPTIONS="-Xss1g -Xmx12g" timeout $t tlc -workers $w -metadir /verif/work/probe_$c -cleanup -noGenerateSpecTE -config $c.cfg $m.tla > /verif/work/probe_$c.txt 2>&1; rc=$?
e=$(date +%s)
echo "$c rc=$rc $((e-s))s $(grep -E 'states generated' /verif/work/probe_$c.txt | tail -1) vecs=$(grep -c VEC /verif/work/probe_$c.txt) $(grep -E 'violated|Error:' /verif/work/probe_$c.txt | head -1)"
rm -rf /verif/work/probe_$c
