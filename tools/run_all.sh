#!/bin/bash
# runs every registered check (quick by default) and summarises
tier=${1:-quick}
cd "$(dirname "$0")/.."
for p in C01 C02 C03 C04 C05 C06 C07 C08 C09 C10 C11 C12 C13 C14 C15 C16 C17 C18 C19 C20; do
  s=$(date +%s); ./check $p --tier $tier > work/all_$p.log 2>&1; rc=$?; e=$(date +%s)
  echo "$p rc=$rc $((e-s))s $(grep -c '^VIOLATION' work/all_$p.log) violations $(grep -c '^KNOWN-FINDING:' work/all_$p.log) known | $(tail -1 work/all_$p.log | cut -c1-160)"
done
