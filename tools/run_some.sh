#!/bin/bash
# usage: run_some.sh <tier> <ID>...   -- like run_all.sh for the listed checks, in the given order
tier=$1; shift
cd "$(dirname "$0")/.."
mkdir -p work
for p in "$@"; do
  s=$(date +%s); ./check $p --tier $tier > work/all_$p.log 2>&1; rc=$?; e=$(date +%s)
  echo "$p rc=$rc $((e-s))s $(grep -c '^VIOLATION' work/all_$p.log) violations $(grep -c '^KNOWN-FINDING:' work/all_$p.log) known | $(tail -1 work/all_$p.log | cut -c1-160)"
done
