#!/usr/bin/env python3
import json,glob,struct,sys
def sv(v):
    if not isinstance(v,dict) or 't' not in v: return str(v)
    t=v['t']
    if t in('int','uint','dur'):
        n=0
        for l in reversed(v['n']['m']): n=n*10000+l
        return ('-' if v['n']['s']<0 else '')+str(n)+('u' if t=='uint' else '')+('ns' if t=='dur' else '')
    if t=='str': return repr(''.join(map(chr,v['cp'])))
    if t=='list': return '['+','.join(sv(x) for x in v['e'])+']'
    if t=='map': return '{'+','.join(sv(k)+':'+sv(x) for k,x in v['e'])+'}'
    if t=='bool': return str(v['v'])
    if t=='bytes': return 'b'+repr(bytes(v['b']))
    if t=='dbl':
        b=0
        for w in v['b']: b=(b<<16)|w
        return repr(struct.unpack('>d',b.to_bytes(8,'big'))[0])
    return t
seen=set()
for f in sorted(glob.glob(sys.argv[1]+'/*.json')):
    c=json.load(open(f))['case']
    if 'op' in c:
        o=c['out']
        k=(c['op'],c['form'],c['a']['t'],c['b'].get('t'),o.get('k'))
        if k in seen: continue
        seen.add(k)
        print('OP', c['op'], c['form'], repr(c.get('src')), sv(c['a']), sv(c['b']), '->', o.get('k'), o.get('c') or (sv(o['v']) if isinstance(o.get('v'),dict) else o.get('v') or o.get('msg')))
    else:
        o=c.get('out',{})
        print(c.get('id'), c.get('src','')[:200]); print('   ->', o.get('k'), o.get('c') or (sv(o['v']) if 'v' in o else o.get('msg')), ' log:', len(c.get('log',[])))
        print('   vars:', {n:sv(v) for n,v in c.get('vars',[]) if n in c.get('src','')})
