#!/bin/bash
# usage: try_mutant.sh <patch> <PROP> [tier]   -- applies the patch to /repo, runs the check, reverts
patch=$(readlink -f "$1"); prop=$2; tier=${3:-quick}
cd /repo || exit 2
if ! git apply --check "$patch" 2>/dev/null; then
  if ! git apply --3way "$patch" 2>/dev/null; then echo "PATCH DOES NOT APPLY: $patch"; git checkout -- . ; git reset -q --hard HEAD; exit 3; fi
else
  git apply "$patch"
fi
cd /verif && ./check $prop --tier $tier > /verif/work/mutant_$prop.log 2>&1; rc=$?
cd /repo && git reset -q --hard HEAD && git checkout -- . 
echo "rc=$rc  $(grep -c '^VIOLATION' /verif/work/mutant_$prop.log) violations; $(tail -1 /verif/work/mutant_$prop.log)"
exit $rc
